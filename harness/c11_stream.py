"""C11: the generated JSON Schema accepts exactly the JSON values the validator accepts.

For every generated validator of the JSON-native fragment and every generated JSON value:

* the real validator's verdict (`validator(x).is_valid`) is compared with the verdict of an
  independent evaluator (jsonschema's Draft 2020-12 implementation, extended with the reading C11
  fixes: `integer` = Python int, `number` = Python float, `nullable`) on the real `to_json_schema`
  output  -- the model-free oracle;
* the Lean evaluator `evalSchema` runs on the same real schema and must agree with jsonschema, the
  Lean `run` must agree with the real validator, and the Lean `toSchema` with the real schema -- the
  correspondence that ties the theorems of Properties/C11.lean to /repo.

A disagreement between schema and validator is classified by *repairing the schema's reading*: if
reading `oneOf` as `anyOf` (D14), the NotBlank pattern as "contains a non-whitespace character" (D13)
or a user pattern as anchored at the start (D15) makes the verdicts agree, the failure is that known
finding; anything else is a new violation.
"""
from __future__ import annotations

import collections
import copy
import json
import random
import re
from typing import Any, Dict, List, Optional, Tuple

from . import build, driver, engine, oracle, props, wire
from .build import DEFAULT_NONE_VID, NOTBLANK_PID
from .gen import B, F, I, NONE, S
from .genv import VGen
from .schema_stream import nonrecurrent_vids, printer_tables, to_j, type_vids

JALPHA = [ord(c) for c in "abzAZ01 .-_@\n\t"] + [0xA0, 0x2003, 0x3000, 0x1F600, 0xE9, 11, 12] + \
    [ord(c) for c in "|(*+?^$\\[{"]      # regex metacharacters: prefixes / suffixes / literals must be escaped
JINTS = [0, 1, -1, 2, 3, -3, 5, 10, 255, 10 ** 20, -(10 ** 20)]
JFLOATS = [F(False, 0, 0), F(False, 1, 0), F(True, 1, 0), F(False, 3, -1), F(False, 1, -1), F(False, 5, 0),
           F(False, 1, 1), F(False, 3602879701896397, -55), F(False, 1, 100)]
NOTBLANK_TEXT = r"^(?!\s*$).+"
KEYS = ["a", "b", "c", "d", "e", "f_1"]


class FragGen(VGen):
    """validators of the JSON-native fragment"""

    def fstr(self, maxlen: int = 4) -> dict:
        n = self.rng.choice([0, 1, 1, 2, 2, 3, maxlen])
        return {"t": "str", "s": [self.rng.choice(JALPHA) for _ in range(n)]}

    def fatom(self, ty: str) -> dict:
        r = self.rng
        if ty == "str":
            return self.fstr()
        if ty == "int":
            return I(r.choice(JINTS))
        if ty == "float":
            return copy.deepcopy(r.choice(JFLOATS))
        if ty == "bool":
            return B(r.choice([True, False]))
        raise ValueError(ty)

    def fnum(self) -> dict:
        return self.fatom(self.rng.choice(["int", "float"]))

    def fpat(self) -> dict:
        r = self.rng
        els = []
        for _ in range(r.choice([1, 1, 2, 3])):
            k = r.choice(["lit", "lit", "cls", "any", "star"])
            if k == "lit":
                els.append({"k": "lit", "c": r.choice(JALPHA)})
            elif k == "any":
                els.append({"k": "any"})
            else:
                els.append({"k": k, "cs": sorted(set(r.choice(JALPHA) for _ in range(r.choice([1, 2, 3]))))})
        return {"start": self.chance(0.4), "els": els, "end": self.chance(0.3)}

    def fpred(self, ty: str) -> dict:
        r = self.rng
        pid = self.pid()
        if ty == "str":
            k = r.choice(["MinLength", "MaxLength", "ExactLength", "StartsWith", "EndsWith", "NotBlank", "NotBlank",
                          "Choices", "EqualTo", "Regex", "Regex"])
            if k == "MinLength":
                return {"k": k, "pid": pid, "n": r.choice([0, 1, 1, 2])}
            if k == "MaxLength":
                return {"k": k, "pid": pid, "n": r.choice([1, 3, 4, 10])}
            if k == "ExactLength":
                return {"k": k, "pid": pid, "n": r.choice([0, 1, 2, 3])}
            if k in ("StartsWith", "EndsWith"):
                v = self.fstr()
                v["s"] = v["s"][:r.choice([1, 1, 2])]
                return {"k": k, "pid": pid, "v": v}
            if k == "NotBlank":
                return {"k": k, "pid": NOTBLANK_PID}
            if k == "Choices":
                return {"k": k, "pid": pid, "vs": self.distinct([self.fstr() for _ in range(r.choice([1, 2, 4]))])}
            if k == "EqualTo":
                return {"k": k, "pid": pid, "v": self.fstr()}
            return {"k": "Regex", "pid": pid, "pat": self.fpat()}
        if ty in ("int", "float"):
            k = r.choice(["Min", "Max", "EqualTo", "Choices"])
            if k in ("Min", "Max"):
                return {"k": k, "pid": pid, "v": self.fnum() if self.chance(0.3) else self.fatom(ty), "excl": self.chance(0.4)}
            if k == "EqualTo":
                return {"k": k, "pid": pid, "v": self.fnum() if self.chance(0.2) else self.fatom(ty)}
            return {"k": k, "pid": pid, "vs": self.distinct([self.fatom(ty) for _ in range(r.choice([1, 2, 4]))])}
        if ty == "bool":
            if self.chance(0.5):
                return {"k": "EqualTo", "pid": pid, "v": self.fatom("bool")}
            return {"k": "Choices", "pid": pid, "vs": self.distinct([self.fatom("bool") for _ in range(r.choice([1, 2]))])}
        if ty == "list":
            k = r.choice(["MinItems", "MaxItems"])
            return {"k": k, "pid": pid, "n": r.choice([0, 1, 2, 3] if k == "MaxItems" else [0, 0, 1, 2])}
        if ty == "dict":
            k = r.choice(["MinKeys", "MaxKeys"])
            return {"k": k, "pid": pid, "n": r.choice([0, 1, 2, 3] if k == "MaxKeys" else [0, 0, 1, 2])}
        raise ValueError(ty)

    def fpreds(self, ty: str, maxn: int = 3) -> List[dict]:
        return [self.fpred(ty) for _ in range(self.rng.choice([0, 0, 1, 1, 2, maxn]))]

    def fscalar(self, ty: Optional[str] = None) -> dict:
        ty = ty or self.rng.choice(["str", "str", "int", "float", "bool"])
        return {"k": "scalar", "vid": self.vid(), "ty": ty, "coerce": None, "pre": None, "preds": self.fpreds(ty),
                "apreds": None}

    def fleaf(self) -> dict:
        if self.chance(0.15):
            ty = self.rng.choice(["str", "int", "float", "bool"])
            return {"k": "equals", "vid": self.vid(), "m": self.fatom(ty), "pre": None, "pid": self.pid()}
        return self.fscalar()

    def fv(self, depth: int, me: Optional[dict] = None, guarded: bool = False) -> dict:
        """`me`: a Lazy to the named schema, usable under a container (`guarded`)"""
        r = self.rng
        if depth <= 0 or self.chance(0.2):
            if me and guarded and self.chance(0.5):
                return dict(me, vid=self.vid())
            return self.fleaf()
        k = r.choice(["list", "list", "utuple", "ntuple", "map", "record", "dictAny", "dataclass", "namedtuple",
                      "typeddict", "union", "union", "optional", "optional"] + (["self", "self"] if me and guarded else []))
        d = depth - 1
        if k == "self":
            assert me is not None
            return dict(me, vid=self.vid())
        if k in ("list", "utuple"):
            item = self.fv(d, me, True)
            preds = self.fpreds("list", 2)
            if item["k"] in ("scalar", "equals") and self.chance(0.35):
                preds.append({"k": "UniqueItems", "pid": self.pid()})
            return {"k": k, "vid": self.vid(), "item": item, "preds": preds or (None if self.chance(0.5) else []),
                    "apreds": None, "coerce": None if k == "list" else "default"}
        if k == "ntuple":
            n = r.choice([0, 1, 2, 2, 3])
            return {"k": "ntuple", "vid": self.vid(), "fields": [self.fv(d, me, True) for _ in range(n)], "oc": None,
                    "lenPid": self.pid(), "untyped": False, "coerce": "default"}
        if k == "map":
            return {"k": "map", "vid": self.vid(),
                    "key": {"k": "scalar", "vid": self.vid(), "ty": "str", "coerce": None, "pre": None, "preds": [],
                            "apreds": None},
                    "value": self.fv(d, me, True), "preds": self.fpreds("dict", 2) or None, "apreds": None, "coerce": None}
        if k in ("record", "dictAny", "dataclass", "namedtuple", "typeddict"):
            return self.frecord(k, d, me)
        if k == "union":
            n = r.choice([1, 2, 2, 3])
            return {"k": "union", "vid": self.vid(), "vs": [self.fv(d, me, guarded) for _ in range(n)], "untyped": self.chance(0.5)}
        nv = {"k": "none", "vid": DEFAULT_NONE_VID, "coerce": None}
        return {"k": "optional", "vid": self.vid(), "noneV": nv, "inner": self.fv(d, me, guarded)}

    def frecord(self, kind: str, depth: int, me: Optional[dict]) -> dict:
        r = self.rng
        n = r.choice([0, 1, 2, 2, 3, 4])
        keys = [S(x) for x in r.sample(KEYS, n)]
        vals = [self.fv(depth, me, True) for _ in range(n)]
        d: Dict[str, Any] = {"k": "record", "vid": self.vid(), "kind": kind, "keys": keys, "vals": vals, "oc": None,
                             "aoc": None, "failUnknown": self.chance(0.5)}
        if kind == "record":
            reqs = []
            for i in range(n):
                if self.chance(0.35):
                    d["vals"][i] = {"k": "knr", "vid": self.vid(), "inner": d["vals"][i]}
                    reqs.append(False)
                else:
                    reqs.append(True)
            d["reqs"] = reqs
            d["into"] = {"id": self.cb(), "f": "dictOf", "keys": keys}
            return d
        if kind == "dictAny":
            d["reqs"] = [not self.chance(0.35) for _ in range(n)]
            d["knrVids"] = [self.vid() for _ in range(n)]
            return d
        names = ["".join(map(chr, k["s"])) for k in keys]
        d["fieldNames"] = names
        ndef = r.choice([0, 0, 1, n]) if n else 0
        reqs = [True] * (n - min(ndef, n)) + [False] * min(ndef, n)
        if kind == "typeddict":
            r.shuffle(reqs)
            d["reqs"] = reqs
            d["cls"] = {"id": self.cid(), "kind": 4, "hashable": False, "slots": False}
            d["tdStyle"] = r.choice([0, 1])
            d["defaults"] = [None] * n
            d["coerce"] = None
            return d
        d["reqs"] = reqs
        defaults: List[Optional[dict]] = [None if reqs[i] else I(0) for i in range(n)]
        d["defaults"] = defaults
        d["cls"] = self.new_class(1 if kind == "dataclass" else 2, fields=[[nm, df] for nm, df in zip(names, defaults)],
                                  hashable=False, slots=False)
        d["coerce"] = None
        return d

    def fnamed(self, depth: int) -> dict:
        """a named recursive definition: the body refers to itself under a container"""
        r = self.rng
        ref = len(self.env)
        self.env.append({"k": "always", "vid": build.ALWAYS_VID})
        me = {"k": "lazy", "vid": self.vid(), "ref": ref}
        c = r.random()
        if c < 0.3:
            body = {"k": "union", "vid": self.vid(), "untyped": False,
                    "vs": [self.fscalar(r.choice(["int", "str"])),
                           {"k": "list", "vid": self.vid(), "item": dict(me, vid=self.vid()), "preds": None,
                            "apreds": None, "coerce": None}]}
        elif c < 0.6:
            body = {"k": "record", "vid": self.vid(), "kind": "dictAny", "keys": [S("val"), S("next")],
                    "vals": [self.fscalar(r.choice(["int", "str"])),
                             {"k": "optional", "vid": self.vid(),
                              "noneV": {"k": "none", "vid": DEFAULT_NONE_VID, "coerce": None},
                              "inner": dict(me, vid=self.vid())}],
                    "reqs": [True, self.chance(0.5)], "knrVids": [self.vid(), self.vid()], "oc": None, "aoc": None,
                    "failUnknown": self.chance(0.5)}
        else:
            body = self.fv(max(depth, 1), me)
            if body["k"] in ("scalar", "equals", "lazy"):
                body = {"k": "list", "vid": self.vid(), "item": dict(me, vid=self.vid()), "preds": None,
                        "apreds": None, "coerce": None}
        self.env[ref] = body
        return body

    # ---- JSON data
    def jarbitrary(self, depth: int = 0) -> dict:
        r = self.rng
        c = r.random()
        if c < 0.6 or depth > 2:
            t = r.choice(["none", "bool", "int", "float", "str", "str"])
            return NONE if t == "none" else self.fatom(t)
        if c < 0.8:
            return {"t": "list", "oid": self.oid(), "xs": [self.jarbitrary(depth + 1) for _ in range(r.choice([0, 1, 2, 3]))]}
        ks = r.sample(KEYS + ["extra", "val", "next"], r.choice([0, 1, 2, 3]))
        return {"t": "dict", "oid": self.oid(), "kvs": [[S(k), self.jarbitrary(depth + 1)] for k in ks]}

    def conform(self, v: dict, depth: int = 0, rec_depth: int = 3) -> dict:
        if v["k"] == "lazy" and rec_depth <= 0:
            # cut the recursion with something small (a definition may have no finite value at all)
            return self.rng.choice([NONE, {"t": "list", "oid": self.oid(), "xs": []}, {"t": "dict", "oid": self.oid(), "kvs": []},
                                    I(1), S("a")])
        return super().conform(v, depth, rec_depth)

    def jconform(self, v: dict) -> dict:
        return self.jsonify(self.conform(v))

    def jsonify(self, x: dict) -> dict:
        t = x["t"]
        if t in ("list", "tuple", "set"):
            return {"t": "list", "oid": self.oid(), "xs": [self.jsonify(y) for y in x["xs"]]}
        if t == "dict":
            kvs = []
            for k, val in x["kvs"]:
                if k["t"] == "str" and not any(k == k2 for k2, _ in kvs):
                    kvs.append([k, self.jsonify(val)])
            return {"t": "dict", "oid": self.oid(), "kvs": kvs}
        if t == "inst":
            return {"t": "dict", "oid": self.oid(),
                    "kvs": [[S(n), self.jsonify(val)] for n, val in zip(x["names"], x["vals"])]}
        if t in ("none", "bool", "int"):
            return x
        if t == "float":
            return x if x.get("k") == "fin" else F(False, 1, 0)
        if t == "str":
            return {"t": "str", "s": [c if c in JALPHA else 97 for c in x["s"]]}
        return self.jarbitrary(2)

    def conform_scalar(self, v: dict) -> dict:
        """fragment scalars: satisfy the simple predicates (from the JSON alphabet)"""
        r = self.rng
        ty = v["ty"]
        for p in v.get("preds") or []:
            if p["k"] == "EqualTo" and self.chance(0.8):
                return copy.deepcopy(p["v"])
            if p["k"] == "Choices" and p["vs"] and self.chance(0.8):
                return copy.deepcopy(r.choice(p["vs"]))
        if ty == "str":
            base = self.fstr(3)
            for p in v.get("preds") or []:
                if p["k"] == "StartsWith":
                    base["s"] = p["v"]["s"] + base["s"]
                if p["k"] == "EndsWith":
                    base["s"] = base["s"] + p["v"]["s"]
                if p["k"] == "Regex" and self.chance(0.7):
                    base["s"] = (base["s"][:1] if not p["pat"]["start"] and self.chance(0.4) else []) + \
                        self.pat_sample(p["pat"]) + ([] if p["pat"]["end"] else base["s"][:1])
            return base
        if ty in ("int", "float", "bool"):
            return self.fatom(ty)
        return super().conform_scalar(v)

    def pat_sample(self, pat: dict) -> List[int]:
        r = self.rng
        out: List[int] = []
        for el in pat["els"]:
            if el["k"] == "lit":
                out.append(el["c"])
            elif el["k"] == "cls":
                out.append(r.choice(el["cs"]))
            elif el["k"] == "any":
                out.append(r.choice([97, 32, 48]))
            else:
                out += [r.choice(el["cs"]) for _ in range(r.choice([0, 1, 2]))]
        return out

    def jmutate(self, x: dict) -> dict:
        """change the JSON value at one position"""
        from .genv import all_paths, get_at, set_at
        x = copy.deepcopy(x)
        path = self.rng.choice(list(all_paths(x)))
        new = self.jmut1(get_at(x, path))
        if not path:
            return new
        set_at(x, path, new)
        return x

    def jmut1(self, t: dict) -> dict:
        r = self.rng
        tt = t["t"]
        c = r.random()
        if tt == "list" and c < 0.7:
            t = copy.deepcopy(t)
            op = r.choice(["drop", "add", "dup"])
            if op == "drop" and t["xs"]:
                t["xs"].pop(r.randrange(len(t["xs"])))
            elif op == "dup" and t["xs"]:
                t["xs"].append(copy.deepcopy(r.choice(t["xs"])))
            else:
                t["xs"].append(self.jarbitrary(1))
            return t
        if tt == "dict" and c < 0.7:
            t = copy.deepcopy(t)
            op = r.choice(["drop", "add"])
            if op == "drop" and t["kvs"]:
                t["kvs"].pop(r.randrange(len(t["kvs"])))
            else:
                k = r.choice(KEYS + ["extra", "zz"])
                if not any(kv[0] == S(k) for kv in t["kvs"]):
                    t["kvs"].append([S(k), self.jarbitrary(1)])
            return t
        if tt == "int":
            return r.choice([B(t["i"] % 2 == 1), F(t["i"] < 0, abs(t["i"]) % 1000, 0), S(str(t["i"])[:20]), I(t["i"] + 1), NONE])
        if tt == "bool":
            return r.choice([I(1 if t["b"] else 0), S("true"), B(not t["b"]), NONE])
        if tt == "float":
            return r.choice([I(1), S("1.0"), F(False, 7, -2), NONE])
        if tt == "str":
            s = list(t["s"])
            op = r.choice(["nl", "sp", "empty", "ws", "astral", "cut", "other", "none", "int"])
            if op == "nl":
                return {"t": "str", "s": [10] + s}
            if op == "sp":
                return {"t": "str", "s": s + [32]}
            if op == "empty":
                return S("")
            if op == "ws":
                return {"t": "str", "s": [r.choice([32, 9, 10, 0xA0, 0x3000]) for _ in range(r.choice([1, 2]))]}
            if op == "astral":
                return {"t": "str", "s": s[:1] + [0x1F600] + s[1:]}
            if op == "cut":
                return {"t": "str", "s": s[1:] if self.chance(0.5) else s[:-1]}
            if op == "other":
                return self.fstr()
            if op == "none":
                return NONE
            return I(len(s))
        return self.jarbitrary(1)


# ------------------------------------------------------------------------------------------------
# the independent evaluator

def _mk_validator_cls() -> Any:
    """Draft 2020-12 with the `type` keyword read on Python types: `integer` = int (not bool), `number` =
    float.  Only the `type` keyword changes: the numeric keywords keep applying to ints and floats."""
    from jsonschema import Draft202012Validator, validators
    from jsonschema.exceptions import ValidationError

    def py_type(validator: Any, types: Any, instance: Any, schema: Any) -> Any:
        ts = [types] if isinstance(types, str) else list(types)

        def is_t(t: str) -> bool:
            if t == "integer":
                return type(instance) is int
            if t == "number":
                return type(instance) is float
            return bool(validator.is_type(instance, t))
        if not any(is_t(t) for t in ts):
            yield ValidationError(f"{instance!r} is not of type {types!r}")
    return validators.extend(Draft202012Validator, validators={"type": py_type})


_VCLS: Any = None
SUBSCHEMA_VALUE = ("items", "additionalProperties")
SUBSCHEMA_LIST = ("prefixItems", "oneOf", "allOf", "anyOf")
REPAIRS = ("D13", "D14", "D15")


def rewrite(s: Any, repairs: Tuple[str, ...] = (), user_pats: Tuple[str, ...] = ()) -> Any:
    """`nullable: true` -> "or null"; with `repairs`, the alternative readings used to classify a failure"""
    if not isinstance(s, dict):
        return s
    out: Dict[str, Any] = {}
    for k, v in s.items():
        if k == "nullable":
            continue
        if k in SUBSCHEMA_VALUE:
            out[k] = rewrite(v, repairs, user_pats)
        elif k in SUBSCHEMA_LIST and isinstance(v, list):
            kk = "anyOf" if (k == "oneOf" and "D14" in repairs) else k
            out[kk] = [rewrite(y, repairs, user_pats) for y in v]
        elif k == "properties" and isinstance(v, dict):
            out[k] = {pk: rewrite(pv, repairs, user_pats) for pk, pv in v.items()}
        elif k == "pattern" and v == NOTBLANK_TEXT and "D13" in repairs:
            out[k] = r"\S"
        elif k == "pattern" and isinstance(v, str) and v in user_pats and "D15" in repairs:
            out[k] = "^(?:" + v + ")"
        else:
            out[k] = v
    if s.get("nullable") is True:
        return {"anyOf": [{"type": "null"}, out]}
    return out


def py_eval(schema: dict, named: Optional[dict], x: Any, repairs: Tuple[str, ...] = (),
            user_pats: Tuple[str, ...] = ()) -> bool:
    global _VCLS
    if _VCLS is None:
        _VCLS = _mk_validator_cls()
    if named is None:
        doc = rewrite(schema, repairs, user_pats)
    else:
        name = named["name"]
        doc = {"$defs": {name: rewrite(schema[name], repairs, user_pats)}, "$ref": "#/$defs/" + name}
    return bool(_VCLS(doc).is_valid(x))


def ptr_escape(name: str) -> str:
    from urllib.parse import quote
    return quote(name.replace("~", "~0").replace("/", "~1"), safe="")


def excluded_by_quantifier(schema: Any, x: Any) -> bool:
    """`$` against a string that ends in a newline: Python's `re` and ECMA-262 read it differently"""
    pats = [p for p in all_patterns(schema) if p != NOTBLANK_TEXT and re.search(r"(?<!\\)(\\\\)*\$$", p)]
    if not pats:
        return False
    return any(s.endswith("\n") for s in all_strings(x))


def all_patterns(s: Any) -> Any:
    if isinstance(s, dict):
        for k, v in s.items():
            if k == "pattern" and isinstance(v, str):
                yield v
            else:
                yield from all_patterns(v)
    elif isinstance(s, list):
        for v in s:
            yield from all_patterns(v)


def all_strings(x: Any) -> Any:
    if isinstance(x, str):
        yield x
    elif isinstance(x, list):
        for v in x:
            yield from all_strings(v)
    elif isinstance(x, dict):
        for k, v in x.items():
            yield from all_strings(v)


# ------------------------------------------------------------------------------------------------

def gen_case(g: FragGen, opts: dict) -> dict:
    r = g.rng
    g.reset()
    named = None
    if r.random() < 0.25:
        v = g.fnamed(r.choice([1, 2]))
        named = {"name": r.choice(["T", "Node", "n_1"]), "ref": "#/$defs/"}
    else:
        v = g.fv(r.choice([0, 1, 1, 2, 2, 3]))
    xs = []
    if r.random() < 0.06:
        # uniqueness across JSON types: `1` and `true` (and `0` / `false`) are different items for the schema and
        # for the predicate alike, although Python's `==` identifies them
        sc = lambda ty: {"k": "scalar", "vid": g.vid(), "ty": ty, "coerce": None, "pre": None, "preds": [], "apreds": None}  # noqa: E731
        v = {"k": r.choice(["list", "utuple"]), "vid": g.vid(),
             "item": {"k": "union", "vid": g.vid(), "vs": [sc("int"), sc("bool")], "untyped": r.random() < 0.5},
             "preds": [{"k": "UniqueItems", "pid": g.pid()}], "apreds": None, "coerce": None}
        if v["k"] == "utuple":
            v["coerce"] = "default"
        named = None
        pool = [I(0), I(1), B(True), B(False), I(2)]
        for _ in range(3):
            xs.append({"t": "list", "oid": g.oid(), "xs": [copy.deepcopy(e) for e in r.sample(pool, r.choice([2, 3, 4]))]})
    for _ in range(opts.get("inputs", 6)):
        c = r.random()
        x = g.jarbitrary() if c < 0.15 else g.jconform(v)
        if 0.15 <= c < 0.55:
            x = g.jmutate(x)
        xs.append(x)
    return {"env": g.env, "v": v, "classes": g.classes, "named": named, "xs": xs}


def user_patterns(case: dict) -> Tuple[str, ...]:
    out = []
    for d in props.find_all(case["v"], case["env"]):
        if d.get("k") == "Regex":
            out.append(build.mk_pat(d["pat"]).pattern)
    return tuple(sorted(set(out)))


def run_real(case: dict) -> Optional[dict]:
    """real schema + real verdicts + oracle verdicts"""
    from koda_validate import Valid
    from koda_validate.serialization import to_json_schema, to_named_json_schema
    ctx = wire.Ctx()
    try:
        v = build.build(ctx, case["v"], case["env"])
        xs = [wire.mk_value(ctx, x) for x in case["xs"]]
    except Exception as e:  # noqa
        return {"unbuildable": f"{type(e).__name__}: {e}"}
    named = case["named"]
    try:
        if named is None:
            schema = to_json_schema(v)
        else:
            schema = to_named_json_schema(named["name"], v, named["ref"])
    except Exception as e:  # noqa
        return {"schema_raised": wire.exn_name(e)}
    out: Dict[str, Any] = {"schema": schema, "schema_j": to_j(schema, ctx), "verdicts": [], "oracle": [], "fails": [],
                           "xd": [wire.canon_value(ctx, x) for x in xs], "excluded": 0}
    ups = user_patterns(case)
    for i, x in enumerate(xs):
        try:
            res = v(x)
            acc: Any = isinstance(res, Valid)
        except RecursionError:
            raise
        except BaseException as e:  # noqa
            acc = "raised:" + wire.exn_name(e)
        out["verdicts"].append(acc)
        if excluded_by_quantifier(schema, x):
            out["oracle"].append(None)
            out["excluded"] += 1
            continue
        try:
            sv: Any = py_eval(schema, named, x)
        except Exception as e:  # noqa
            sv = "error:" + type(e).__name__ + ":" + str(e)[:80]
        out["oracle"].append(sv)
        if isinstance(sv, str):
            out["fails"].append((i, f"the independent evaluator could not evaluate the schema ({sv})"))
        elif acc != sv:
            expl = None
            for n in range(1, len(REPAIRS) + 1):
                import itertools
                for sub in itertools.combinations(REPAIRS, n):
                    try:
                        if py_eval(schema, named, x, sub, ups) == acc:
                            expl = sub
                            break
                    except Exception:  # noqa
                        pass
                if expl:
                    break
            tag = f" [explained-by:{'+'.join(expl)}]" if expl else ""
            out["fails"].append((i, f"input {i}: the schema {'accepts' if sv else 'rejects'} a value the validator "
                                    f"{'accepts' if acc is True else ('rejects' if acc is False else acc)}{tag}"))
    return out


def shard(seed: int, shard_i: int, n: int, opts: dict) -> dict:
    rng = random.Random(f"{seed}-{shard_i}-c11{opts.get('salt', '')}")
    g = FragGen(rng, async_rate=0.0, user_rate=0.0, special_rate=0.0)
    from . import registry
    corpus = [c for c in registry.load_corpus("C11")] if shard_i == 0 else []
    cases, reals, reqs, spans = [], [], [], []
    stats: collections.Counter = collections.Counter()
    failures: List[dict] = []
    distinct, nontrivial = set(), set()
    samples: List[dict] = []
    for i in range(n + len(corpus)):
        c = corpus[i] if i < len(corpus) else gen_case(g, opts)
        wire.set_classes(c["classes"])
        real = run_real(c)
        if real is None or "unbuildable" in real:
            stats["unbuildable"] += 1
            continue
        if "schema_raised" in real:
            stats["schema_raised:" + real["schema_raised"]] += 1
            failures.append({"property": "C11", "case": c, "xd": c["xs"],
                             "what": f"schema generation raised {real['schema_raised']} for a validator of the fragment",
                             "real": None})
            continue
        cases.append(c)
        reals.append(real)
        stats["kind:" + c["v"]["k"] + (":named" if c["named"] else "")] += 1
        for acc, sv in zip(real["verdicts"], real["oracle"]):
            if sv is None:
                stats["excluded-by-quantifier"] += 1
                continue
            stats[f"validator:{acc}/schema:{sv}"] += 1
        h = engine.case_hash({"v": c["v"], "env": c["env"], "xs": real["xd"]})
        distinct.add(h)
        accs = [a for a, s in zip(real["verdicts"], real["oracle"]) if s is not None]
        if True in accs and False in accs:
            nontrivial.add(h)
        for i_, f in real["fails"]:
            failures.append({"property": "C11", "case": dict(c, xs=[c["xs"][i_]]), "xd": real["xd"][i_], "what": re.sub(r"^input \d+: ", "", f),
                             "real": {"schema": real["schema"], "validator_accepts": real["verdicts"][i_],
                                      "schema_accepts": real["oracle"][i_]}})
        start = len(reqs)
        rq = {"op": "evalschema", "schema": real["schema_j"]["o"][0][1] if c["named"] else real["schema_j"],
              "xs": real["xd"], "fuel": 400}
        if c["named"]:
            rq["ref"] = [ord(ch) for ch in c["named"]["ref"] + c["named"]["name"]]
        reqs.append(rq)
        srq = {"op": "schema", "v": c["v"], "typeVids": type_vids(c["v"], c["env"]),
               "nonRecurrent": nonrecurrent_vids(c["v"], c["env"]), "printer": printer_tables(c["v"], c["env"])}
        if c["named"]:
            srq["named"] = {"name": [ord(ch) for ch in c["named"]["name"]], "ref": [ord(ch) for ch in c["named"]["ref"]]}
        reqs.append(srq)
        tabs = oracle.tables(c["v"], c["env"], real["xd"])
        for xd in real["xd"]:
            reqs.append({"op": "run", "mode": "sync", "env": c["env"], "v": c["v"], "x": xd, "oracle": tabs, "fuel": 400})
        spans.append((start, len(reqs)))
        if len(samples) < 1 and True in accs and False in accs:
            samples.append({"v": c["v"], "schema": real["schema"], "inputs": real["xd"][:3], "verdicts": real["verdicts"][:3]})
    answers = driver.run_batch(reqs) if reqs else []
    disagreements: List[dict] = []
    for c, real, (a, b) in zip(cases, reals, spans):
        ev, sch, runs = answers[a], answers[a + 1], answers[a + 2:b]
        if "error" in ev or "error" in sch:
            disagreements.append({"case": c, "fields": ["model-error"], "model": [ev, sch], "xd": real["xd"]})
            continue
        # (1) the model's schema is the real schema
        if sch.get("ok") != real["schema_j"]:
            disagreements.append({"case": c, "fields": ["schema"], "real": json.dumps(real["schema_j"])[:1200],
                                  "model": json.dumps(sch)[:1200], "xd": real["xd"]})
        for i_, (o, sv, acc, rn) in enumerate(zip(ev["outs"], real["oracle"], real["verdicts"], runs)):
            # (2) the model's evaluator agrees with the independent one
            if sv is not None and not isinstance(sv, str):
                mv = o.get("ok") if "ok" in o else ("undetermined" if "undetermined" in o else "notJson")
                if mv != sv:
                    disagreements.append({"case": dict(c, xs=[c["xs"][i_]]), "fields": ["evalSchema"], "real": sv, "model": mv,
                                          "schema": real["schema"], "xd": real["xd"][i_]})
            # (3) the model's validator agrees with the real one
            if "error" in rn:
                if rn.get("error") != "fuel":
                    disagreements.append({"case": dict(c, xs=[c["xs"][i_]]), "fields": ["run-error"], "model": rn, "xd": real["xd"][i_]})
                continue
            macc: Any = True if "valid" in rn["out"] else (False if "invalid" in rn["out"] else "raised:" + str(rn["out"].get("raised")))
            if macc != acc:
                disagreements.append({"case": dict(c, xs=[c["xs"][i_]]), "fields": ["run-verdict"], "real": acc, "model": macc,
                                      "xd": real["xd"][i_]})
    return {"evaluated": len(cases), "inputs": sum(len(r["verdicts"]) for r in reals), "stats": dict(stats),
            "failures": failures[:40], "n_failures": len(failures), "disagreements": disagreements[:10],
            "n_disagreements": len(disagreements), "distinct": list(distinct), "nontrivial": list(nontrivial),
            "samples": samples}


def run(pid: str, tier: str, seed: int, spec: dict, scale: float = 1.0, salt: str = "") -> dict:
    n = int((2400 if tier == "quick" else 60000) * scale)
    res = engine.run_sharded("harness.c11_stream", "shard", seed, n, {"salt": salt})
    crashes = [r["crash"] for r in res if "crash" in r]
    if crashes:
        raise RuntimeError("shard crashed:\n" + crashes[0])
    out: Dict[str, Any] = {"evaluations": 0, "failures": [], "disagreements": [], "n_failures": 0, "n_disagreements": 0,
                           "samples": []}
    stats: collections.Counter = collections.Counter()
    distinct, nontrivial = set(), set()
    for r in res:
        out["evaluations"] += r["inputs"]
        out["failures"] += r["failures"]
        out["disagreements"] += r["disagreements"]
        out["n_failures"] += r["n_failures"]
        out["n_disagreements"] += r["n_disagreements"]
        out["samples"] += r["samples"]
        stats.update(r["stats"])
        stats["validators"] += r["evaluated"]
        distinct.update(r["distinct"])
        nontrivial.update(r["nontrivial"])
    out["distinct_nontrivial"] = len(nontrivial)
    out["distribution"] = dict(stats)
    return out


def replay_case(case: dict) -> List[str]:
    wire.set_classes(case.get("classes", []))
    real = run_real(case)
    if real is None or "unbuildable" in real:
        return ["case cannot be built: " + str(real)]
    if "schema_raised" in real:
        return [f"schema generation raised {real['schema_raised']} for a validator of the fragment"]
    return [f for _, f in real["fails"]]
