"""Oracle tables: what the stdlib parsers return for every string of a case."""
from __future__ import annotations

import datetime as _dt
import decimal
import uuid
from typing import Any, Dict, List, Set, Tuple

from . import wire


def strings_in(d: Any, out: Set[Tuple[int, ...]]) -> None:
    if isinstance(d, dict):
        if d.get("t") == "str":
            out.add(tuple(d["s"]))
        for v in d.values():
            strings_in(v, out)
    elif isinstance(d, list):
        for v in d:
            strings_in(v, out)


def _try(f: Any, s: str, excs: Any) -> Any:
    try:
        return f(s)
    except excs:
        return None


def tables(*descs: Any) -> dict:
    ss: Set[Tuple[int, ...]] = set()
    for d in descs:
        strings_in(d, ss)
    ctx = wire.Ctx()
    dec, uu, da, dt = [], [], [], []
    for cps in sorted(ss):
        s = "".join(map(chr, cps))
        r = _try(decimal.Decimal, s, decimal.InvalidOperation)
        dec.append([list(cps), None if r is None else wire.canon_value(ctx, r)])
        r = _try(uuid.UUID, s, ValueError)
        uu.append([list(cps), None if r is None else wire.canon_value(ctx, r)])
        r = _try(_dt.date.fromisoformat, s, (ValueError, TypeError))
        da.append([list(cps), None if r is None else wire.canon_value(ctx, r)])
        r = _try(_dt.datetime.fromisoformat, s, (ValueError, TypeError))
        dt.append([list(cps), None if r is None else wire.canon_value(ctx, r)])
    return {"decimal": dec, "uuid": uu, "date": da, "datetime": dt}
