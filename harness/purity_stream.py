"""C13: purity and non-interference on the real objects (model-free), plus agreement of the number of
await points with the model's trace.

 (a) deep snapshots of the input and of the validator's attribute graph before / after every call;
 (b) histories: one instance fed a sequence of inputs, each result compared with a fresh instance's;
 (c) interleavings: 2-3 async validations sharing one instance, driven by hand; every interleaving is
     enumerated when the total number of await points is small, sampled beyond;
 (d) threads: 4 threads on a shared instance with a tiny switch interval (sampling only).
"""
from __future__ import annotations

import collections
import itertools
import json
import random
import sys
import threading
from typing import Any, Dict, List, Optional, Tuple

from . import build, driver, engine, oracle, props, wire
from .genv import VGen


def decorate_instances(obj: Any, depth: int = 0) -> None:
    """give every dataclass instance with a `__dict__` some extra instance state (what a `cached_property` or an
    ad-hoc attribute leaves there): validation must leave the caller's object exactly as it was"""
    import dataclasses
    if depth > 20:
        return
    if isinstance(obj, (list, tuple, set, frozenset)):
        for y in obj:
            decorate_instances(y, depth + 1)
    elif isinstance(obj, dict):
        for y in obj.values():
            decorate_instances(y, depth + 1)
    elif dataclasses.is_dataclass(obj) and not isinstance(obj, type) and hasattr(obj, "__dict__"):
        for f in dataclasses.fields(obj):
            decorate_instances(getattr(obj, f.name, None), depth + 1)
        try:
            object.__setattr__(obj, "_vp_extra_state", ("cached", 1))
        except Exception:  # noqa
            pass


def snap(obj: Any, seen: Optional[Dict[int, int]] = None, depth: int = 0) -> Any:
    """structure of an object's attribute graph, independent of addresses"""
    seen = seen if seen is not None else {}
    if depth > 40:
        return "…"
    if obj is None or isinstance(obj, (bool, int, float, str, bytes)):
        return repr(obj)
    oid = id(obj)
    if oid in seen:
        return ("ref", seen[oid])
    seen[oid] = len(seen)
    if isinstance(obj, (list, tuple)):
        return (type(obj).__name__, [snap(x, seen, depth + 1) for x in obj])
    if isinstance(obj, (set, frozenset)):
        return (type(obj).__name__, sorted(repr(snap(x, seen, depth + 1)) for x in obj))
    if isinstance(obj, dict):
        return ("dict", [(snap(k, seen, depth + 1), snap(v, seen, depth + 1)) for k, v in obj.items()])
    if isinstance(obj, (wire.Ctx,)) or callable(obj) and not hasattr(obj, "__dict__"):
        return type(obj).__name__
    if isinstance(obj, type):
        return ("class", obj.__name__)
    code = getattr(obj, "__code__", None)
    if code is not None:
        # a function held by a validator (a Lazy's thunk, a coercer, a whole-object check): which function it is
        return ("function", getattr(obj, "__qualname__", "?"), code.co_filename, code.co_firstlineno)
    d: List[Tuple[str, Any]] = []
    if hasattr(obj, "__dict__"):
        for k, v in vars(obj).items():
            if k in ("ctx", "log"):
                continue
            d.append((k, snap(v, seen, depth + 1)))
    for k in getattr(type(obj), "__slots__", ()):
        if hasattr(obj, k):
            d.append((k, snap(getattr(obj, k), seen, depth + 1)))
    return (type(obj).__name__, d)


def scribble(obj: Any, depth: int) -> None:
    """edit a payload in place wherever it can be edited"""
    import dataclasses as _dc
    if depth > 4:
        return
    if type(obj) is list:
        for o in list(obj):
            scribble(o, depth + 1)
        obj.append("\x00scribble")
    elif type(obj) is dict:
        for o in list(obj.values()):
            scribble(o, depth + 1)
        obj["\x00scribble"] = 1
    elif type(obj) is set:
        obj.add("\x00scribble")
    elif isinstance(obj, tuple):
        for o in obj:
            scribble(o, depth + 1)
    elif _dc.is_dataclass(obj) and not isinstance(obj, type):
        for f in _dc.fields(obj):
            try:
                scribble(getattr(obj, f.name), depth + 1)
            except Exception:  # noqa
                pass


class Stepper:
    """a coroutine driven by hand: each `step()` resumes it up to its next await point"""

    def __init__(self, coro: Any) -> None:
        self.coro = coro
        self.done = False
        self.result: Any = None
        self.steps = 0

    def step(self) -> None:
        if self.done:
            return
        try:
            self.coro.send(None)
            self.steps += 1
        except StopIteration as e:
            self.done = True
            self.result = ("ok", e.value)
        except BaseException as e:  # noqa
            self.done = True
            self.result = ("raised", type(e).__name__)


def solo(v: Any, x: Any) -> Tuple[Any, int]:
    s = Stepper(v.validate_async(x))
    while not s.done:
        s.step()
    return s.result, s.steps


def canon_res(ctx: wire.Ctx, r: Any) -> Any:
    if r[0] == "raised":
        return {"raised": r[1]}
    return wire.normalise(wire.canon_result(ctx, r[1]))


def interleavings(counts: List[int]) -> Any:
    """all orders of resuming tasks, task i being resumed counts[i] times"""
    seq = []
    for i, c in enumerate(counts):
        seq += [i] * c
    seen = set()
    for p in itertools.permutations(seq):
        if p not in seen:
            seen.add(p)
            yield p


def yields_of(v: Any, env: List[dict]) -> Dict[Tuple[str, int], int]:
    out: Dict[Tuple[str, int], int] = {}
    for d in props_walk([v, env]):
        if d.get("k") == "user" and "pid" in d and "fn" in d:
            out[("apred", d["pid"])] = d.get("yields", 0)
        if "id" in d and "fn" in d and "yields" in d:
            out[("aoc", d["id"])] = d["yields"]
    return out


def props_walk(d: Any) -> Any:
    if isinstance(d, dict):
        yield d
        for x in d.values():
            yield from props_walk(x)
    elif isinstance(d, list):
        for x in d:
            yield from props_walk(x)


def gen_case(g: VGen, opts: dict) -> dict:
    r = g.rng
    g.reset()
    g.async_rate = r.choice([0.0, 0.4, 0.7, 0.7])
    v = g.gen_v(r.choice([0, 1, 1, 2, 2]))
    # every async-only check suspends once or twice: these are the await points schedules switch at
    for d in props_walk([v, g.env]):
        if d.get("k") in ("scalar", "list", "set", "utuple", "map") and d.get("apreds"):
            for p in d["apreds"]:
                p["yields"] = r.choice([1, 1, 2])
        if isinstance(d.get("aoc"), dict):
            d["aoc"]["yields"] = r.choice([1, 2])
    xs = []
    for _ in range(r.choice([2, 3, 3, 5, 8])):
        c = r.random()
        x = g.hostile() if c < 0.1 else g.conform(v)
        if 0.1 <= c < 0.3:
            x = g.near_miss(x)
        xs.append(x)
    # a RecordValidator admits dict subclasses: one input is the conforming dict, minus a declared key, as an instance
    # of a dict subclass whose `__missing__` inserts a default (the even-numbered generated subclasses, like
    # `defaultdict(int)`) - looking a key up must neither see a key that is not there nor edit the caller's dict
    rv = v
    while rv.get("k") == "user":
        rv = rv["inner"]
    if rv.get("k") == "record" and rv.get("kind") == "record" and rv.get("keys"):
        base = g.conform(rv)
        if base.get("t") == "dict" and base.get("kvs"):
            c = g.new_class(3, base="dict")
            if c["id"] % 2 == 1:
                c = g.new_class(3, base="dict")
            base = dict(base, kvs=list(base["kvs"]))
            base["kvs"].pop(r.randrange(len(base["kvs"])))
            xs.append({"t": "sub", "cls": c, "v": base})
    return {"env": g.env, "v": v, "xs": xs, "classes": g.classes, "threads": r.random() < opts.get("thread_rate", 0.05)}


def check_case(case: dict, rng: random.Random, max_exhaustive: int) -> Tuple[Optional[str], List[str], dict, List[dict]]:
    ctx = wire.Ctx()
    try:
        v = build.build(ctx, case["v"], case["env"])
        xs = [wire.mk_value(ctx, x) for x in case["xs"]]
    except Exception as e:  # noqa
        return f"{type(e).__name__}", [], {}, []
    fails: List[str] = []
    info: Dict[str, Any] = {"interleavings": 0, "await_points": 0, "exhaustive": False}
    has_async = props.has_async(case["v"], case["env"])
    # ---- (a) + (b): history on one instance, snapshots around every call, fresh instance as reference
    v_before = snap(v)
    solo_results = []
    model_reqs: List[dict] = []
    for i, x in enumerate(xs):
        x_before = wire.canon_value(ctx, x)
        res, steps = solo(v, x)
        if wire.canon_value(ctx, x) != x_before:
            fails.append(f"history call {i}: the input value was mutated")
        if snap(v) != v_before:
            fails.append(f"history call {i}: the validator's configuration changed")
            v_before = snap(v)
        c2 = wire.Ctx()
        c2.cls_by_id, c2.cls_desc, c2.oid = ctx.cls_by_id, ctx.cls_desc, ctx.oid
        fresh = build.build(c2, case["v"], case["env"])
        fres, fsteps = solo(fresh, x)
        a, b = canon_res(ctx, res), canon_res(c2, fres)
        if a != b:
            fails.append(f"history call {i}: result differs from a fresh instance's result on the same input")
        if not has_async:
            try:
                sres: Any = ("ok", v(x))
            except BaseException as e:  # noqa
                sres = ("raised", type(e).__name__)
            if canon_res(ctx, sres) != a:
                fails.append(f"history call {i}: sync result differs from async result on the shared instance")
        solo_results.append((a, steps))
        model_reqs.append({"op": "run", "mode": "async", "env": case["env"], "v": case["v"], "x": x_before,
                           "oracle": oracle.tables(case["v"], case["env"], x_before), "fuel": 400,
                           "_steps": steps})
    # ---- (a'') "an equal input returns an equal result regardless of what was validated before": numbers that
    # Python's `==` identifies across types (1, 1.0, Decimal(1), True) are validated before and after the history of
    # their look-alikes; a result that changes in between is state keyed by equality leaking across calls; real code only
    try:
        import decimal as _dec
        twins: List[Any] = []
        for x in xs:
            for a in (x if isinstance(x, (list, tuple)) else [x]):
                if type(a) in (int, float, _dec.Decimal) and a == a and abs(a) < 10 ** 6 and a == int(a):
                    twins += [t for t in (int(a), float(a), _dec.Decimal(int(a))) if type(t) is not type(a)]
        twins = twins[:6]
        if twins:
            fresh2 = build.build(ctx, case["v"], case["env"])
            first = [canon_res(ctx, solo(fresh2, t)[0]) for t in twins]
            for x in xs:
                solo(fresh2, x)
            for t, r0 in zip(twins, first):
                if canon_res(ctx, solo(fresh2, t)[0]) != r0:
                    fails.append(f"the result for {t!r} changed after equal values of another type had been validated")
                    break
    except Exception:  # noqa
        pass
    # ---- (a3) what a call returns is the caller's to keep: editing a returned payload in place (appending to its
    # lists, adding to its dicts and sets, at any depth) changes neither the validator nor what it returns next for an
    # equal input.  (Skipped when a class has a default that is, or holds, a mutable container and is not produced by a
    # factory: Python itself shares that object between all instances built without the field.)  real code only
    try:
        def _shared(c: dict) -> bool:
            for _, d in c.get("fields", []):
                if d is None or '"oid"' not in json.dumps(d):
                    continue
                if c.get("kind") == 2:
                    return True                      # a NamedTuple default is one object for all instances
                if c.get("kind") == 1 and not (d.get("t") in ("list", "dict", "set") or c.get("id", 0) % 2 == 1):
                    return True                      # a dataclass `default=` (not a factory) holding a container inside
            return False
        shared_by_python = any(_shared(c) for c in case.get("classes", []))
        if not shared_by_python:
            c4 = wire.Ctx()
            c4.cls_by_id, c4.cls_desc, c4.oid = ctx.cls_by_id, ctx.cls_desc, ctx.oid
            v4 = build.build(c4, case["v"], case["env"])
            snap4 = snap(v4)
            for i, xd in enumerate(case["xs"][:3]):
                r1 = solo(v4, wire.mk_value(c4, xd))[0]
                if r1[0] != "ok" or not getattr(r1[1], "is_valid", False):
                    continue
                want = wire.normalise(props.strip_ids(canon_res(c4, r1)))
                scribble(r1[1].val, 0)
                if snap(v4) != snap4:
                    fails.append(f"history call {i}: editing the returned payload in place changed the validator's configuration")
                    break
                # (an equal input, built anew: the first one may share objects with the payload that was edited)
                c5 = wire.Ctx()
                c5.cls_by_id, c5.cls_desc = c4.cls_by_id, c4.cls_desc
                r2 = solo(v4, wire.mk_value(c5, xd))[0]
                if wire.normalise(props.strip_ids(canon_res(c4, r2))) != want:
                    fails.append(f"history call {i}: after the caller edited the returned payload in place, an equal input "
                                 f"gets a different result")
                    break
    except Exception:  # noqa
        pass
    # ---- (a') the caller's objects are left exactly as they were, including instance state that is not a
    # declared field (what a cached_property or an ad-hoc attribute leaves in `__dict__`); real code only
    if '"inst"' in json.dumps(case["xs"]):
        c3 = wire.Ctx()
        c3.cls_by_id, c3.cls_desc = ctx.cls_by_id, ctx.cls_desc
        try:
            ys = [wire.mk_value(c3, x) for x in case["xs"]]
            for y in ys:
                decorate_instances(y)
            for i, y in enumerate(ys):
                before = snap(y)
                solo(v, y)
                if snap(y) != before:
                    fails.append(f"history call {i}: the caller's object was modified (instance state beyond the declared fields)")
                    break
        except Exception:  # noqa
            pass
    # ---- (c) interleavings of 2-3 validations sharing the instance
    k = min(len(xs), rng.choice([2, 2, 3]))
    idxs = list(range(len(xs)))[:k]
    counts = [solo_results[i][1] + 1 for i in idxs]      # resumptions needed to finish
    total = sum(counts)
    info["await_points"] = total - k
    if total - k > 0:
        if total <= max_exhaustive:
            scheds: Any = interleavings(counts)
            info["exhaustive"] = True
        else:
            def sample() -> Any:
                for _ in range(30):
                    seq = []
                    for i, c in enumerate(counts):
                        seq += [i] * c
                    rng.shuffle(seq)
                    yield tuple(seq)
            scheds = sample()
        for sched in scheds:
            info["interleavings"] += 1
            tasks = [Stepper(v.validate_async(xs[i])) for i in idxs]
            for t in sched:
                tasks[t].step()
            for t in tasks:
                while not t.done:
                    t.step()
            for j, t in enumerate(tasks):
                if canon_res(ctx, t.result) != solo_results[idxs[j]][0]:
                    fails.append(f"interleaving {sched}: task {j} returned something else than when run alone")
                    break
            if fails:
                break
        if snap(v) != v_before:
            fails.append("the validator's configuration changed during interleaved validation")
    # ---- (d) threads
    if case.get("threads") and not has_async:
        old = sys.getswitchinterval()
        sys.setswitchinterval(1e-6)
        out: Dict[int, Any] = {}

        def work(tid: int) -> None:
            for rep in range(20):
                for i, x in enumerate(xs):
                    try:
                        r: Any = ("ok", v(x))
                    except BaseException as e:  # noqa
                        r = ("raised", type(e).__name__)
                    out[(tid, rep, i)] = r
        ths = [threading.Thread(target=work, args=(t,)) for t in range(4)]
        for t in ths:
            t.start()
        for t in ths:
            t.join()
        sys.setswitchinterval(old)
        info["thread_calls"] = len(out)
        for (tid, rep, i), r in out.items():
            if canon_res(ctx, r) != solo_results[i][0]:
                fails.append(f"thread {tid}: result on input {i} differs from the solo result")
                break
    return None, fails, info, model_reqs


def shard(seed: int, shard_i: int, n: int, opts: dict) -> dict:
    build.EXTRA_YIELDS[0] = False      # the number of await points is predicted by the model (Sched)
    rng = random.Random(f"{seed}-{shard_i}-c13{opts.get('salt', '')}")
    g = VGen(rng, async_rate=0.3, user_rate=0.15)
    failures: List[dict] = []
    stats: collections.Counter = collections.Counter()
    distinct, nontrivial = set(), set()
    samples: List[dict] = []
    all_reqs: List[dict] = []
    owners: List[Tuple[dict, int]] = []
    evaluated = 0
    for _ in range(n):
        c = gen_case(g, opts)
        wire.set_classes(c["classes"])
        unb, fails, info, reqs = check_case(c, rng, opts.get("max_exhaustive", 8))
        if unb:
            stats["unbuildable"] += 1
            continue
        evaluated += 1
        h = engine.case_hash({"v": c["v"], "xs": c["xs"]})
        distinct.add(h)
        stats["history_calls"] += len(c["xs"])
        stats["interleavings"] += info["interleavings"]
        stats["exhaustive_sets" if info["exhaustive"] else "sampled_sets"] += 1 if info["interleavings"] else 0
        stats["thread_calls"] += info.get("thread_calls", 0)
        stats[f"await_points={min(info['await_points'], 9)}"] += 1
        if info["interleavings"] > 1:
            nontrivial.add(h)
        for f in fails:
            failures.append({"property": "C13", "case": c, "xd": c["xs"], "what": f, "real": info})
        for rq in reqs[:2]:
            all_reqs.append(rq)
            owners.append((c, rq["_steps"]))
        if len(samples) < 1 and info["interleavings"] > 1:
            samples.append({"v": c["v"], "inputs": len(c["xs"]), "await_points": info["await_points"],
                            "interleavings": info["interleavings"], "exhaustive": info["exhaustive"]})
    # the model's trace predicts the number of await points of every run
    disagreements = []
    if all_reqs:
        answers = driver.run_batch([{k: v for k, v in r.items() if k != "_steps"} for r in all_reqs])
        for (c, steps), rq, a in zip(owners, all_reqs, answers):
            if "error" in a or "trace" not in a:
                continue
            ys = yields_of(c["v"], c["env"])
            predicted = sum(ys.get((ev[0], ev[1]), 0) for ev in a["trace"] if ev[0] in ("apred", "aoc"))
            if "raised" in a["out"]:
                continue
            if predicted != steps:
                disagreements.append({"case": c, "fields": ["await-points"], "real": steps, "model": predicted, "xd": rq["x"]})
    return {"evaluated": evaluated, "stats": dict(stats), "failures": failures[:20], "n_failures": len(failures),
            "disagreements": disagreements[:10], "n_disagreements": len(disagreements),
            "distinct": list(distinct), "nontrivial": list(nontrivial), "samples": samples}


def run(pid: str, tier: str, seed: int, spec: dict, scale: float = 1.0, salt: str = "") -> dict:
    n = int((1600 if tier == "quick" else 30000) * scale)
    res = engine.run_sharded("harness.purity_stream", "shard", seed, n,
                             {"salt": salt, "max_exhaustive": 8 if tier == "quick" else 10,
                              "thread_rate": 0.04 if tier == "quick" else 0.08})
    crashes = [r["crash"] for r in res if "crash" in r]
    if crashes:
        raise RuntimeError("shard crashed:\n" + crashes[0])
    out: Dict[str, Any] = {"evaluations": 0, "failures": [], "disagreements": [], "n_failures": 0, "n_disagreements": 0,
                           "samples": []}
    stats: collections.Counter = collections.Counter()
    distinct, nontrivial = set(), set()
    for r in res:
        out["evaluations"] += r["evaluated"]
        out["failures"] += r["failures"]
        out["disagreements"] += r["disagreements"]
        out["n_failures"] += r["n_failures"]
        out["n_disagreements"] += r["n_disagreements"]
        out["samples"] += r["samples"]
        stats.update(r["stats"])
        distinct.update(r["distinct"])
        nontrivial.update(r["nontrivial"])
    out["distinct_nontrivial"] = len(nontrivial)
    out["distribution"] = dict(stats)
    return out


def replay_case(case: dict) -> List[str]:
    build.EXTRA_YIELDS[0] = False
    wire.set_classes(case.get("classes", []))
    unb, fails, info, _ = check_case(case, random.Random(0), 8)
    return fails if not unb else ["case cannot be built: " + unb]
