"""C15: the bounded plane of (predicate / processor, parameter, argument), enumerated exhaustively,
plus sampled large values.  Real `__call__` vs the model's `PredK.call` / `ProcK.call`."""
from __future__ import annotations

import collections
import itertools
import json
import random
from typing import Any, Dict, Iterable, Iterator, List, Tuple

from . import build, driver, engine, wire
from .gen import D, F, I, S, B, NONE

INTS = [I(i) for i in range(-3, 4)]
FLOATS = [{"t": "float", "k": "inf", "neg": True}, F(True, 3, -1), F(True, 1, 0), F(True, 0, 0), F(False, 0, 0),
          F(False, 1, -1), F(False, 1, 0), F(False, 3, 0), {"t": "float", "k": "inf", "neg": False},
          {"t": "float", "k": "nan"}]
FIN_FLOATS = [f for f in FLOATS if f["k"] == "fin"]
DECS = [D(True, 15, -1), D(True, 0, 0), D(False, 0, 0), D(False, 5, -1), D(False, 1, 0), D(False, 10, -1),
        D(False, 1, 1), D(False, 3, 0)]
DATES = [{"t": "date", "o": o} for o in (1, 737425, 737426, 3652059)]
DTS = [{"t": "datetime", "us": u, "off": None} for u in (0, 63082281600000000, 63082281600000001)] + \
      [{"t": "datetime", "us": 63082281600000000, "off": 0}, {"t": "datetime", "us": 63082281600000000 + 19800 * 10 ** 6, "off": 19800}]
STR_AL = [97, 65, 32, 10, 0x85, 0x1C, 0xFEFF]
WS_AL = [9, 10, 11, 12, 13, 28, 29, 30, 31, 32, 0x85, 0xA0, 0x1680, 0x2000, 0x2003, 0x200A, 0x2028, 0x2029, 0x202F,
         0x205F, 0x3000, 0xFEFF, 0x200B, 97, 0x1F600, 0xD800, 48]
BYTE_AL = [97, 65, 32, 9, 10, 11, 12, 13, 0, 0x85, 0xA0, 28]
EMAIL_AL = [97, 64, 46, 45, 43, 95, 32]
ATOMS = [I(1), B(True), F(False, 1, 0), D(False, 1, 0), I(0), B(False), S("a"), {"t": "bytes", "s": [97]}, NONE,
         {"t": "tuple", "oid": 0, "xs": [I(1)]}, {"t": "list", "oid": 0, "xs": [I(1)]},
         {"t": "list", "oid": 0, "xs": [B(True)]}, {"t": "dict", "oid": 0, "kvs": []}]


SUBLIST = {"id": 901, "kind": 3, "hashable": False, "slots": False, "fields": [], "base": "list"}
SUBDICT = {"id": 902, "kind": 3, "hashable": False, "slots": False, "fields": [], "base": "dict"}
UNHASHABLE = [{"t": "list", "oid": 0, "xs": [I(1)]}, {"t": "sub", "cls": SUBLIST, "v": {"t": "list", "oid": 0, "xs": [I(1)]}},
              {"t": "dict", "oid": 0, "kvs": []}, {"t": "sub", "cls": SUBDICT, "v": {"t": "dict", "oid": 0, "kvs": []}},
              {"t": "list", "oid": 0, "xs": [B(True)]}, {"t": "set", "oid": 0, "xs": []}]


def strs(al: List[int], maxlen: int, t: str = "str") -> List[dict]:
    out = []
    for n in range(maxlen + 1):
        for cs in itertools.product(al, repeat=n):
            out.append({"t": t, "s": list(cs)})
    return out


def plane() -> Iterator[Tuple[str, dict, dict]]:
    """('pred' | 'proc', description, argument) — the exhaustive part"""
    pid = 7
    for dom in (INTS, FLOATS, DECS, DATES, DTS[:3], DTS[3:]):
        for k in ("Min", "Max"):
            for excl in (False, True):
                for p in dom:
                    if p.get("k") == "nan" and p["t"] == "decimal":
                        continue
                    for x in dom:
                        yield "pred", {"k": k, "pid": pid, "v": p, "excl": excl}, x
        for p in dom:
            for x in dom:
                yield "pred", {"k": "EqualTo", "pid": pid, "v": p}, x
    for p, x in itertools.product([I(1), B(True), F(False, 1, 0), D(False, 1, 0)], repeat=2):
        yield "pred", {"k": "EqualTo", "pid": pid, "v": p}, x
    for f in INTS:
        if f["i"] != 0:
            for x in INTS + [I(10 ** 30), I(-(10 ** 30) - 1)]:
                yield "pred", {"k": "MultipleOf", "pid": pid, "v": f}, x
    for f in FIN_FLOATS:
        if f["m"] != 0:
            for x in FLOATS:
                yield "pred", {"k": "MultipleOf", "pid": pid, "v": f}, x
    for f in DECS:
        if f["c"] != 0:
            for x in DECS:
                yield "pred", {"k": "MultipleOf", "pid": pid, "v": f}, x
    # membership: choices of size 0..2 over each typed domain and over mixed atoms
    hash_atoms = [a for a in ATOMS if a["t"] not in ("list", "dict")]
    for dom in (INTS[2:6], DECS[2:6], [S(""), S("a"), S("A")], hash_atoms, [f for f in FLOATS if f["k"] != "nan"][2:7]):
        for n in (0, 1, 2):
            for vs in itertools.combinations(dom, n):
                for x in dom:
                    yield "pred", {"k": "Choices", "pid": pid, "vs": list(vs)}, x
    ss = strs(STR_AL, 3)
    bs = strs(BYTE_AL[:6], 3, "bytes")
    for k in ("MinLength", "MaxLength", "ExactLength"):
        for n in range(0, 5):
            for x in ss + bs:
                yield "pred", {"k": k, "pid": pid, "n": n}, x
    for k in ("StartsWith", "EndsWith"):
        for p in strs(STR_AL[:4], 2):
            for x in strs(STR_AL[:4], 3):
                yield "pred", {"k": k, "pid": pid, "v": p}, x
        for p in strs(BYTE_AL[:4], 2, "bytes"):
            for x in strs(BYTE_AL[:4], 3, "bytes"):
                yield "pred", {"k": k, "pid": pid, "v": p}, x
    for x in strs(WS_AL, 2) + strs(WS_AL[:6] + [97], 3):
        yield "pred", {"k": "NotBlank", "pid": 1}, x
        yield "proc", {"k": "strip", "pid": pid}, x
    for x in strs(BYTE_AL, 2, "bytes") + strs(BYTE_AL[:5], 3, "bytes"):
        yield "pred", {"k": "NotBlank", "pid": 1}, x
        yield "proc", {"k": "strip", "pid": pid}, x
    for x in strs([97, 122, 65, 90, 64, 91, 96, 123, 32, 0x85, 0x1F600], 2) + strs([97, 65, 32], 4):
        yield "proc", {"k": "upper", "pid": pid}, x
        yield "proc", {"k": "lower", "pid": pid}, x
    for x in strs([97, 122, 65, 90, 64, 91, 96, 123, 32, 0x85, 0xFF, 0xE9], 2, "bytes"):
        yield "proc", {"k": "upper", "pid": pid}, x
        yield "proc", {"k": "lower", "pid": pid}, x
    for x in strs(EMAIL_AL, 5):
        yield "pred", {"k": "Email", "pid": pid}, x
    # regex: match at the start
    pats = []
    els_pool = [{"k": "lit", "c": 97}, {"k": "lit", "c": 46}, {"k": "any"}, {"k": "cls", "cs": [97, 98]},
                {"k": "star", "cs": [97]}, {"k": "star", "cs": [97, 10]}]
    for n in (1, 2):
        for els in itertools.product(els_pool, repeat=n):
            for st in (False, True):
                for en in (False, True):
                    pats.append({"start": st, "els": list(els), "end": en})
    rs = strs([97, 98, 46, 10], 3)
    for pat in pats:
        for x in rs:
            yield "pred", {"k": "Regex", "pid": pid, "pat": pat}, x
    # item counts, key counts, uniqueness over mixed-type atoms
    for t in ("list", "tuple"):
        for n in range(0, 5):
            for xs in itertools.product(ATOMS if n <= 3 else ATOMS[:7], repeat=n):
                x = {"t": t, "oid": 0, "xs": list(xs)}
                yield "pred", {"k": "UniqueItems", "pid": pid}, x
                if n <= 2:
                    for k in ("MinItems", "MaxItems", "ExactItemCount"):
                        for m in range(0, 4):
                            yield "pred", {"k": k, "pid": pid, "n": m}, x
    # uniqueness among unhashable items that are equal but of different types (a list and an instance of a list
    # subclass, a dict and an instance of a dict subclass): `(type(item), item)` tells them apart
    for t in ("list", "tuple"):
        for n in (2, 3):
            for xs in itertools.product(UNHASHABLE, repeat=n):
                yield "pred", {"k": "UniqueItems", "pid": pid}, {"t": t, "oid": 0, "xs": list(xs)}
    # items of a hashable *type* that cannot be hashed (a tuple holding a list / dict / set), next to hashable tuples
    # and plain unhashables: only trying to hash tells
    T = lambda *xs: {"t": "tuple", "oid": 0, "xs": list(xs)}      # noqa: E731
    HALF = [T(I(1), UNHASHABLE[0]), T(UNHASHABLE[2]), T(T(UNHASHABLE[5])), T(I(1), T(I(2))), T(B(True), UNHASHABLE[4]),
            UNHASHABLE[0], I(1)]
    for t in ("list", "tuple"):
        for n in (1, 2, 3):
            for xs in itertools.product(HALF, repeat=n):
                yield "pred", {"k": "UniqueItems", "pid": pid}, {"t": t, "oid": 0, "xs": list(xs)}
    for n in range(0, 4):
        for xs in itertools.combinations(hash_atoms[4:], n):
            x = {"t": "set", "oid": 0, "xs": list(xs)}
            yield "pred", {"k": "UniqueItems", "pid": pid}, x
            for k in ("MinItems", "MaxItems", "ExactItemCount"):
                for m in range(0, 4):
                    yield "pred", {"k": k, "pid": pid, "n": m}, x
            d = {"t": "dict", "oid": 0, "kvs": [[a, I(0)] for a in xs]}
            for k in ("MinKeys", "MaxKeys"):
                for m in range(0, 4):
                    yield "pred", {"k": k, "pid": pid, "n": m}, d


def sampled(rng: random.Random, n: int) -> Iterator[Tuple[str, dict, dict]]:
    """large values, sampled"""
    for _ in range(n):
        c = rng.random()
        if c < 0.3:
            a, b = rng.choice([10 ** 400, -(10 ** 400), rng.getrandbits(200), 3, 7]), rng.choice([rng.getrandbits(190) + 1, 3, -7])
            k = rng.choice(["Min", "Max", "MultipleOf", "EqualTo"])
            p = {"k": k, "pid": 7, "v": I(b)}
            if k in ("Min", "Max"):
                p["excl"] = rng.random() < 0.5
            yield "pred", p, I(a)
        elif c < 0.5:
            fl = [F(rng.random() < 0.5, rng.getrandbits(53) | 1, rng.randint(-1074, 900)) for _ in range(2)]
            k = rng.choice(["Min", "Max", "MultipleOf", "EqualTo"])
            p = {"k": k, "pid": 7, "v": fl[0]}
            if k in ("Min", "Max"):
                p["excl"] = rng.random() < 0.5
            yield "pred", p, fl[1]
        elif c < 0.7:
            ds = [D(rng.random() < 0.5, rng.randint(1, 10 ** rng.choice([1, 5, 20])), rng.randint(-6, 6)) for _ in range(2)]
            k = rng.choice(["Min", "Max", "MultipleOf", "EqualTo"])
            p = {"k": k, "pid": 7, "v": ds[0]}
            if k in ("Min", "Max"):
                p["excl"] = rng.random() < 0.5
            yield "pred", p, ds[1]
        elif c < 0.85:
            s = {"t": "str", "s": [rng.choice(WS_AL + STR_AL) for _ in range(rng.randint(4, 40))]}
            yield rng.choice([("pred", {"k": "NotBlank", "pid": 1}, s), ("proc", {"k": "strip", "pid": 7}, s),
                              ("pred", {"k": "MaxLength", "pid": 7, "n": rng.randint(0, 40)}, s),
                              ("proc", {"k": "upper", "pid": 7}, s), ("proc", {"k": "lower", "pid": 7}, s)])
        elif c < 0.89:
            # a signalling Decimal NaN among / inside the items (finding D30): `==` signals exactly when Python's
            # element-by-element comparison reaches it
            SN = {"t": "decimal", "k": "snan"}
            leaf = lambda: rng.choice([SN, SN, I(1), B(True), F(False, 1, 0), D(False, 1, 0), S("a"), NONE])
            def item(depth: int = 0) -> dict:
                k = rng.choice(["list", "list", "tuple", "dict", "leaf"] if depth < 2 else ["leaf"])
                if k == "leaf":
                    return leaf()
                if k == "dict":
                    return {"t": "dict", "oid": 0, "kvs": [[S(kk), item(depth + 1)] for kk in rng.sample(["a", "b", "c"], rng.randint(0, 2))]}
                return {"t": k, "oid": 0, "xs": [item(depth + 1) for _ in range(rng.randint(0, 3))]}
            xs = [item() for _ in range(rng.randint(2, 5))]
            yield "pred", {"k": "UniqueItems", "pid": 7}, {"t": rng.choice(["list", "tuple"]), "oid": 0, "xs": xs}
        elif c < 0.93:
            xs = [rng.choice(ATOMS) for _ in range(rng.randint(5, 12))]
            yield "pred", {"k": "UniqueItems", "pid": 7}, {"t": rng.choice(["list", "tuple"]), "oid": 0, "xs": xs}
        else:
            # long collections (13..80 items) of pairwise different values of one type each, plus values that are equal
            # across types (1 / True / 1.0, 0 / False / 0.0 / Decimal 0): unique; half of the time one same-type duplicate
            n = rng.randint(13, 80)
            xs = [I(i) for i in rng.sample(range(2, 400), n)]
            cross = [I(1), B(True), F(False, 1, 0), I(0), B(False), F(False, 0, 0), D(False, 0, 0), D(False, 1, 0)]
            for a in rng.sample(cross, rng.randint(2, len(cross))):
                xs.insert(rng.randrange(len(xs) + 1), a)
            if rng.random() < 0.5:
                xs.insert(rng.randrange(len(xs) + 1), rng.choice(xs))
            yield "pred", {"k": "UniqueItems", "pid": 7}, {"t": rng.choice(["list", "tuple"]), "oid": 0, "xs": xs}


def run_real(kind: str, pd: dict, xd: dict) -> Tuple[dict, List[str], dict]:
    ctx = wire.Ctx()
    x = wire.mk_value(ctx, xd)
    before = wire.canon_value(ctx, x)   # as Python built it (equal set members / dict keys merged)
    fails: List[str] = []
    try:
        if kind == "pred":
            p = build.mk_pred(ctx, pd)
            r = p(x)
            if type(r) is not bool:
                fails.append(f"predicate {pd['k']} returned a {type(r).__name__}, not a real boolean")
            out: dict = {"ok": bool(r)}
        else:
            p = build.mk_proc(ctx, pd)
            r = p(x)
            if type(r) is not type(x):
                fails.append(f"processor {pd['k']} changed the type")
            out = {"ok": wire.canon_value(ctx, r)}
    except BaseException as e:  # noqa
        out = {"raised": wire.exn_name(e)}
        if kind == "pred" and pd["k"] == "UniqueItems" and isinstance(e, TypeError) and isinstance(x, (list, tuple, set)):
            # "uniqueness ... works for unhashable items": failing to hash an item is the predicate's to handle
            fails.append(f"UniqueItems raised TypeError ({str(e)[:60]}) on a collection: it is documented to work for "
                         f"unhashable items")
    if kind == "pred" and pd["k"] == "Regex" and isinstance(x, str):
        # "regex match at the start", for the pattern object the predicate was given - flags included, whatever other
        # RegexPredicate instances have been asked before (checked against `re` itself, not against the model)
        import re as _re
        from koda_validate import RegexPredicate
        src = build.mk_pat(pd["pat"]).pattern
        for flags in (0, _re.IGNORECASE, _re.MULTILINE | _re.DOTALL):
            pat = _re.compile(src, flags)
            twin = RegexPredicate(pat)
            for sx in (x, x.upper(), "\n" + x):
                try:
                    got = twin(sx)
                except BaseException as e:  # noqa
                    got = "raised " + type(e).__name__
                want = pat.match(sx) is not None
                if got != want:
                    fails.append(f"RegexPredicate(re.compile({src!r}, flags={int(flags)}))({sx!r}) returned {got}; "
                                 f"pattern.match gives {want}")
                    break
    if wire.canon_value(ctx, x) != before:
        fails.append(f"{pd['k']} mutated its argument")
    elif kind == "pred" and type(x) is list and x and "ok" in out and pd["k"] in (
            "UniqueItems", "MinItems", "MaxItems", "ExactItemCount"):
        # the same predicate object asked again about the same list after the caller has edited it in place (a
        # duplicate of its first item appended, then removed again): each answer is the one a fresh predicate gives
        try:
            fresh = build.mk_pred(wire.Ctx(), pd)
            x.append(x[0])
            a1, b1 = p(x), fresh(x)
            x.pop()
            a2, b2 = p(x), fresh(x)
            if pd["k"] == "UniqueItems":
                b1, b2 = False, out["ok"]     # an item twice: not unique; the original list: the original answer
            if (a1, a2) != (b1, b2):
                fails.append(f"{pd['k']} asked again about the same list after an in-place edit answers {a1}, {a2}; "
                             f"a fresh predicate answers {b1}, {b2}")
        except BaseException:  # noqa
            pass
    return out, fails, before


def shard(seed: int, shard_i: int, n: int, opts: dict) -> dict:
    shards = opts["shards"]
    items = [it for i, it in enumerate(plane()) if i % shards == shard_i]
    n_plane = len(items)
    rng = random.Random(f"{seed}-{shard_i}-c15")
    items += list(sampled(rng, n))
    reqs, reals = [], []
    failures: List[dict] = []
    kinds: collections.Counter = collections.Counter()
    truth: collections.Counter = collections.Counter()
    for kind, pd, xd in items:
        out, fails, xd = run_real(kind, pd, xd)
        reals.append(out)
        kinds[pd["k"]] += 1
        truth[pd["k"] + ":" + (str(out["ok"]) if kind == "pred" and "ok" in out else ("raised" if "raised" in out else "value"))] += 1
        for f in fails:
            failures.append({"property": "C15", "case": {"kind": kind, "p": pd, "x": xd}, "xd": xd, "what": f, "real": out})
        reqs.append({"op": kind, "p": pd, "x": xd})
    answers = driver.run_batch(reqs)
    disagreements = []
    for (kind, pd, xd), real, ans in zip(items, reals, answers):
        if wire.normalise(real) != wire.normalise(ans):
            # the proved model is the specification of the documented relation
            if "raised" in real or "raised" in ans:
                disagreements.append({"case": {"kind": kind, "p": pd, "x": xd}, "real": real, "model": ans})
            else:
                failures.append({"property": "C15", "case": {"kind": kind, "p": pd, "x": xd}, "xd": xd,
                                 "what": f"{pd['k']} returned {json.dumps(real)[:80]}; the documented relation gives {json.dumps(ans)[:80]}",
                                 "real": real})
    return {"evaluated": len(items), "n_plane": n_plane, "kinds": dict(kinds), "truth": dict(truth),
            "failures": failures[:30], "n_failures": len(failures), "disagreements": disagreements[:10],
            "n_disagreements": len(disagreements),
            "samples": [{"kind": k, "p": p, "x": x} for k, p, x in items[:1] + items[-1:]]}


def run(pid: str, tier: str, seed: int, spec: dict, scale: float = 1.0, salt: str = "") -> dict:
    shards = 16
    n = int((2000 if tier == "quick" else 60000) * scale)
    res = engine.run_sharded("harness.pred_stream", "shard", seed, n * shards, {"shards": shards}, shards)
    crashes = [r["crash"] for r in res if "crash" in r]
    if crashes:
        raise RuntimeError("shard crashed:\n" + crashes[0])
    out: Dict[str, Any] = {"evaluations": 0, "failures": [], "disagreements": [], "n_failures": 0, "n_disagreements": 0,
                           "samples": []}
    kinds: collections.Counter = collections.Counter()
    truth: collections.Counter = collections.Counter()
    nplane = 0
    for r in res:
        out["evaluations"] += r["evaluated"]
        out["failures"] += r["failures"]
        out["disagreements"] += r["disagreements"]
        out["n_failures"] += r["n_failures"]
        out["n_disagreements"] += r["n_disagreements"]
        out["samples"] += r["samples"][:1]
        kinds.update(r["kinds"])
        truth.update(r["truth"])
        nplane += r["n_plane"]
    out["distinct_nontrivial"] = nplane
    out["exhaustive"] = True
    out["distribution"] = {"plane_points_enumerated": nplane, "sampled_large": out["evaluations"] - nplane,
                           "per_predicate": dict(kinds), "outcomes": dict(truth)}
    return out
