"""C07: typehint-derived validators.  Annotations are generated from the supported grammar (with
generated dataclass / NamedTuple / TypedDict classes), turned into real `typing` objects and handed to
the public `get_typehint_validator`; the derived validator's structure and behaviour are compared with
the model's `derive`, and a model-free oracle checks soundness / completeness against an independent
Python implementation of the exact-type reading."""
from __future__ import annotations

import collections
import copy
import dataclasses
import datetime as _dt
import decimal
import json
import random
import typing
import uuid
from typing import Any, Dict, List, Optional, Tuple

from koda import Just, Maybe, nothing

from . import build, driver, engine, oracle, props, wire
from .gen import B, D, I, NONE, NOTHING, S
from .genv import VGen, is_hashable_desc

SCALARS = ["str", "int", "float", "none", "uuid", "date", "datetime", "bool", "decimal", "bytes"]
PY_SCALAR = {"str": str, "int": int, "float": float, "none": None, "uuid": uuid.UUID, "date": _dt.date,
             "datetime": _dt.datetime, "bool": bool, "decimal": decimal.Decimal, "bytes": bytes}


class AGen(VGen):
    def gen_ann(self, depth: int, hashable: bool = False) -> dict:
        r = self.rng
        if depth <= 0 or r.random() < 0.3:
            c = r.random()
            if c < 0.7:
                return {"a": r.choice(SCALARS if not hashable else ["str", "int", "bool", "bytes", "uuid", "date"])}
            if c < 0.8 and not hashable:
                return {"a": "any"}
            if c < 0.9 and not hashable:
                return {"a": r.choice(["listBare", "setBare", "tupleBare", "dictBare"])}
            if c < 0.95:
                return self.gen_literal()
            if not hashable:
                return {"a": "cls", "cls": self.new_class(0, hashable=True)}
            return {"a": "int"}
        k = r.choice(["list", "set", "dict", "union", "optional", "maybe", "tupleVar", "tupleFixed", "literal", "annotated",
                      "dataclass", "namedtuple", "typeddict"] if not hashable else ["union", "optional", "tupleVar", "tupleFixed", "literal"])
        if k == "list":
            return {"a": "list", "x": self.gen_ann(depth - 1)}
        if k == "set":
            return {"a": "set", "x": self.gen_ann(depth - 1, True)}
        if k == "dict":
            return {"a": "dict", "key": self.gen_ann(min(depth - 1, 1), True), "value": self.gen_ann(depth - 1)}
        if k == "union":
            xs = dedup_anns([self.gen_ann(depth - 1, hashable) for _ in range(r.choice([2, 2, 3]))])
            return xs[0] if len(xs) == 1 else {"a": "union", "xs": xs, "bar": r.random() < 0.5}
        if k == "optional":
            xs = dedup_anns([self.gen_ann(depth - 1, hashable), {"a": "none"}])
            return xs[0] if len(xs) == 1 else {"a": "union", "xs": xs, "bar": r.random() < 0.3}
        if k == "maybe":
            return {"a": "maybe", "x": self.gen_ann(depth - 1)}
        if k == "tupleVar":
            return {"a": "tupleVar", "x": self.gen_ann(depth - 1, hashable)}
        if k == "tupleFixed":
            return {"a": "tupleFixed", "xs": [self.gen_ann(depth - 1, hashable) for _ in range(r.choice([0, 1, 1, 2, 2, 3]))]}  # 0: Tuple[()]
        if k == "literal":
            return self.gen_literal()
        if k == "annotated":
            base = r.choice(["str", "int", "decimal"])
            v = self.gen_scalar(base)
            v["apreds"] = None
            v["coerce"] = None if base != "decimal" else "default"
            return {"a": "annotated", "x": {"a": base}, "v": v}
        n = r.choice([0, 1, 2, 2, 3])
        names = r.sample(["a", "b", "c", "d", "e"], n)
        anns = [self.gen_ann(depth - 1) for _ in range(n)]
        if 0 < n < 5 and r.random() < 0.3:
            # a sibling field whose annotation is an existing field's, every union / literal written the other way round
            # (equal and hash-equal as typing objects, different as validators)
            for an in anns:
                m = mirror_ann(an)
                if m is not None:
                    names.append(r.choice([x for x in "abcde" if x not in names]))
                    anns.append(m)
                    n += 1
                    break
        if k == "typeddict":
            reqs = [r.random() < 0.6 for _ in range(n)]
            style = r.choice([0, 1])
            out = {"a": "typeddict", "cls": {"id": self.cid(), "kind": 4, "hashable": False, "slots": False},
                   "names": names, "anns": anns, "reqs": reqs, "style": style}
            if n and r.random() < 0.5:
                # the first `inherit` keys come from a base TypedDict whose totality (`base_total`) is mostly the
                # opposite of the class's own (`style` 0 = total)
                out["inherit"] = r.randint(1, n)
                out["base_total"] = (style == 1) if r.random() < 0.75 else (style == 0)
            return out
        ndef = r.choice([0, 0, 1, n]) if n else 0
        dflts: List[Any] = [None] * (n - min(ndef, n))
        for a in anns[n - min(ndef, n):]:
            dflts.append(self.default_for_ann(a))
        kind = 1 if k == "dataclass" else 2
        c = {"id": self.cid(), "kind": kind, "hashable": kind == 2, "slots": kind == 1 and r.random() < 0.15}
        out = {"a": k, "cls": c, "names": names, "anns": anns, "dflts": dflts}
        if kind == 1 and n and r.random() < 0.25:
            out["inherit"] = r.randint(1, n)       # the first `inherit` fields are declared by a base dataclass and inherited
        return out

    def gen_literal(self) -> dict:
        r = self.rng
        c = r.random()
        if c < 0.3:
            vs = [S(x) for x in r.sample(["a", "b", "", "xy"], r.choice([1, 2]))]
        elif c < 0.55:
            vs = [I(x) for x in r.sample([0, 1, 2, -5], r.choice([1, 2, 3]))]
        elif c < 0.65:
            vs = [B(x) for x in r.sample([True, False], r.choice([1, 2]))]
        elif c < 0.75:
            vs = [{"t": "bytes", "s": [97]}, {"t": "bytes", "s": []}][:r.choice([1, 2])]
        elif c < 0.8:
            vs = [NONE]
        else:
            vs = r.sample([I(1), B(True), S("a"), NONE, {"t": "bytes", "s": [98]}, I(0), B(False)], r.choice([2, 3]))
            vs = dedup_literals(vs)
        return {"a": "literal", "vs": vs}

    def default_for_ann(self, a: dict) -> dict:
        if self.rng.random() < 0.25:
            return self.atom(self.rng.choice(["int", "str", "none"]))     # used as is, on trust
        from .genv import strip_oids
        return strip_oids(self.conform_ann(a))

    # ---- values
    def conform_ann(self, a: dict, depth: int = 0) -> dict:
        r = self.rng
        k = a["a"]
        if k in SCALARS:
            if k == "none":
                return NONE
            return self.atom(k, special=False) if k != "float" else self.atom("float", special=r.random() < 0.2)
        if k == "any":
            return self.hostile(2)
        if k == "listBare":
            return {"t": "list", "oid": self.oid(), "xs": [self.hostile(2) for _ in range(r.choice([0, 1, 2]))]}
        if k == "setBare":
            return {"t": "set", "oid": self.oid(), "xs": self.distinct([self.hashable_val() for _ in range(r.choice([0, 1, 2]))])}
        if k == "tupleBare":
            return {"t": "tuple", "oid": self.oid(), "xs": [self.hostile(2) for _ in range(r.choice([0, 1, 2]))]}
        if k == "dictBare":
            return {"t": "dict", "oid": self.oid(), "kvs": [[self.hashable_val(), self.hostile(2)] for _ in range(r.choice([0, 1]))]}
        if k == "list":
            return {"t": "list", "oid": self.oid(), "xs": [self.conform_ann(a["x"], depth + 1) for _ in range(r.choice([0, 1, 2, 3]))]}
        if k == "set":
            xs = [self.conform_ann(a["x"], depth + 1) for _ in range(r.choice([0, 1, 2]))]
            return {"t": "set", "oid": self.oid(), "xs": self.distinct([x for x in xs if is_hashable_desc(x)])}
        if k == "dict":
            ks = self.distinct([x for x in (self.conform_ann(a["key"], depth + 1) for _ in range(r.choice([0, 1, 2]))) if is_hashable_desc(x)])
            return {"t": "dict", "oid": self.oid(), "kvs": [[kk, self.conform_ann(a["value"], depth + 1)] for kk in ks]}
        if k == "union":
            return self.conform_ann(r.choice(a["xs"]), depth)
        if k == "maybe":
            if r.random() < 0.3:
                return NOTHING
            return {"t": "just", "oid": self.oid(), "v": self.conform_ann(a["x"], depth + 1)}
        if k == "tupleVar":
            return {"t": "tuple", "oid": self.oid(), "xs": [self.conform_ann(a["x"], depth + 1) for _ in range(r.choice([0, 1, 2]))]}
        if k == "tupleFixed":
            return {"t": "tuple", "oid": self.oid(), "xs": [self.conform_ann(x, depth + 1) for x in a["xs"]]}
        if k == "literal":
            return copy.deepcopy(r.choice(a["vs"]))
        if k == "annotated":
            return self.conform(a["v"])
        if k == "cls":
            return {"t": "inst", "oid": self.oid(), "doid": 0, "cls": a["cls"], "names": [], "vals": []}
        if k in ("dataclass", "namedtuple"):
            vals = [self.conform_ann(x, depth + 1) for x in a["anns"]]
            if r.random() < 0.5:
                return {"t": "inst", "oid": self.oid(), "doid": self.oid() if k == "dataclass" and not a["cls"]["slots"] else 0,
                        "cls": a["cls"], "names": list(a["names"]), "vals": vals}
            kvs = [[S(n), v] for n, v, d in zip(a["names"], vals, a["dflts"]) if d is None or r.random() < 0.6]
            return {"t": "dict", "oid": self.oid(), "kvs": kvs}
        if k == "typeddict":
            kvs = [[S(n), self.conform_ann(x, depth + 1)] for n, x, req in zip(a["names"], a["anns"], a["reqs"])
                   if req or r.random() < 0.6]
            return {"t": "dict", "oid": self.oid(), "kvs": kvs}
        raise ValueError(k)


def dedup_anns(xs: List[dict]) -> List[dict]:
    """`typing.Union` flattens nested unions and drops duplicates"""
    flat: List[dict] = []
    for x in xs:
        if x["a"] == "union":
            flat += x["xs"]
        else:
            flat.append(x)
    xs = flat
    out, seen = [], set()
    for x in xs:
        k = json.dumps(x, sort_keys=True)
        if k not in seen:
            seen.add(k)
            out.append(x)
    return out


def dedup_literals(vs: List[dict]) -> List[dict]:
    """typing.Literal deduplicates by (type, value)"""
    out, seen = [], set()
    for v in vs:
        k = json.dumps(v, sort_keys=True)
        if k not in seen:
            seen.add(k)
            out.append(v)
    return out


# ---------------------------------------------------------------------------------------------
# real annotation objects


def _fresh(x: Any = None) -> Any:
    """typing caches parametrisations by *equality* of the arguments, and Union[a, b] == Union[b, a]: within one class,
    Required[Union[None, bytes]] written after Required[Union[bytes, None]] would come back as the earlier object, i.e.
    not the annotation the description says.  Clearing before every parametrisation keeps each as written."""
    for _f in getattr(typing, "_cleanups", []):
        _f()
    return x


def build_ann(ctx: wire.Ctx, a: dict, rng: random.Random) -> Any:
    k = a["a"]
    _fresh()
    if k in PY_SCALAR:
        return PY_SCALAR[k]
    if k == "any":
        return Any
    if k == "listBare":
        return a.setdefault("_alias", rng.choice(["b", "t"])) == "b" and list or typing.List
    if k == "setBare":
        return a.setdefault("_alias", rng.choice(["b", "t"])) == "b" and set or typing.Set
    if k == "tupleBare":
        return a.setdefault("_alias", rng.choice(["b", "t"])) == "b" and tuple or typing.Tuple
    if k == "dictBare":
        return a.setdefault("_alias", rng.choice(["b", "t"])) == "b" and dict or typing.Dict
    alias = a.setdefault("_alias", rng.choice(["b", "t"]))
    if k == "list":
        x = build_ann(ctx, a["x"], rng)
        return list[x] if alias == "b" else typing.List[x]
    if k == "set":
        x = build_ann(ctx, a["x"], rng)
        return set[x] if alias == "b" else typing.Set[x]
    if k == "dict":
        kk, vv = build_ann(ctx, a["key"], rng), build_ann(ctx, a["value"], rng)
        return dict[kk, vv] if alias == "b" else typing.Dict[kk, vv]
    if k == "union":
        xs = [build_ann(ctx, x, rng) for x in a["xs"]]
        if len(xs) == 1:
            return xs[0]
        for i_ in range(len(xs)):
            for j_ in range(i_):
                if xs[i_] == xs[j_]:
                    # typing merges members that compare equal (Literal[1, 2] == Literal[2, 1]): the annotation
                    # object would not be the one the description says
                    raise ValueError("union members compare equal: typing would merge them")
        if a.get("bar"):
            try:
                u = xs[0] if xs[0] is not None else type(None)
                for x in xs[1:]:
                    u = u | (x if x is not None else type(None))
                return u
            except TypeError:
                pass
        return typing.Union[tuple(xs)]
    if k == "maybe":
        return Maybe[build_ann(ctx, a["x"], rng)]
    if k == "tupleVar":
        x = build_ann(ctx, a["x"], rng)
        return tuple[x, ...] if alias == "b" else typing.Tuple[x, ...]
    if k == "tupleFixed":
        xs = tuple(build_ann(ctx, x, rng) for x in a["xs"])
        return tuple[xs] if alias == "b" else typing.Tuple[xs]
    if k == "literal":
        return typing.Literal[tuple(wire.mk_value(ctx, v) for v in a["vs"])]
    if k == "annotated":
        rv = build.mk_validator(ctx, a["v"], [])
        a["_real_v"] = id(rv)
        return typing.Annotated[build_ann(ctx, a["x"], rng), "doc", rv]
    if k == "cls":
        return wire.get_class(ctx, a["cls"])
    cid = a["cls"]["id"]
    if cid in ctx.cls_by_id:
        return ctx.cls_by_id[cid]
    anns = [build_ann(ctx, x, rng) for x in a["anns"]]
    name = f"C{cid}"
    if k == "dataclass":
        specs = []
        for n, an, d in zip(a["names"], anns, a["dflts"]):
            if d is None:
                specs.append((n, an))
            else:
                dv = wire.mk_value(ctx, d)
                if isinstance(dv, (list, dict, set)) or cid % 2 == 1:     # odd class ids: every default through a factory
                    specs.append((n, an, dataclasses.field(default_factory=lambda d=d: wire.mk_value(ctx, d))))
                else:
                    specs.append((n, an, dataclasses.field(default=dv)))
        nb = a.get("inherit", 0)
        if nb:
            base = dataclasses.make_dataclass(name + "Base", specs[:nb], slots=a["cls"]["slots"])
            ctx.keep.append(base)
            cls: Any = dataclasses.make_dataclass(name, specs[nb:], bases=(base,), slots=a["cls"]["slots"])
        else:
            cls = dataclasses.make_dataclass(name, specs, slots=a["cls"]["slots"])
    elif k == "namedtuple":
        env: Dict[str, Any] = {"NamedTuple": typing.NamedTuple}
        lines = []
        for i, (n, an, d) in enumerate(zip(a["names"], anns, a["dflts"])):
            env[f"_a{i}"] = an
            if d is None:
                lines.append(f"    {n}: _a{i}")
            else:
                env[f"_d{i}"] = wire.mk_value(ctx, d)
                lines.append(f"    {n}: _a{i} = _d{i}")
        ns: Dict[str, Any] = {}
        exec(compile(f"class {name}(NamedTuple):\n" + ("\n".join(lines) or "    pass") + "\n", "<nt>", "exec", dont_inherit=True), env, ns)
        cls = ns[name]
    else:
        def td_fields(lo: int, hi: int, total: bool) -> Dict[str, Any]:
            # requiredness as described, written the way a class of this totality has to write it
            if total:
                return {n: (an if r else _fresh(typing.NotRequired)[an])
                        for n, an, r in list(zip(a["names"], anns, a["reqs"]))[lo:hi]}
            return {n: (_fresh(typing.Required)[an] if r else an)
                    for n, an, r in list(zip(a["names"], anns, a["reqs"]))[lo:hi]}
        own_total = a.get("style", 0) == 0
        nb = a.get("inherit", 0)
        if nb:
            import types as _types
            base = typing.TypedDict(name + "Base", td_fields(0, nb, a["base_total"]), total=a["base_total"])  # type: ignore
            ctx.keep.append(base)
            own = td_fields(nb, len(anns), own_total)
            cls = _types.new_class(name, (base,), {"total": own_total}, lambda ns: ns.update({"__annotations__": own}))
        else:
            cls = typing.TypedDict(name, td_fields(0, len(anns), own_total), total=own_total)  # type: ignore
    ctx.cls_by_id[cid] = cls
    ctx.cls_desc[id(cls)] = wire.cls_key(a["cls"])
    ctx.keep.append(cls)
    return cls


def strip_priv(a: Any) -> Any:
    if isinstance(a, dict):
        return {k: strip_priv(v) for k, v in a.items() if not k.startswith("_") and k not in ("bar", "style", "inherit", "base_total")}
    if isinstance(a, list):
        return [strip_priv(x) for x in a]
    return a


# ---------------------------------------------------------------------------------------------
# the exact-type reading, independently of the library and of the model


DICT_FORM = [False]       # completeness check: a dataclass / NamedTuple may be given as a dict of its fields
LENIENT_TD = [False]      # strictness check: undeclared keys of a TypedDict input are dropped, not a coercion


def has_type(ctx: wire.Ctx, a: dict, x: Any, trust: bool = False) -> bool:
    """`trust`: a record field holding its declared default counts (defaults are used as is, on trust)"""
    k = a["a"]
    if k in PY_SCALAR:
        return x is None if k == "none" else type(x) is PY_SCALAR[k]
    if k == "any":
        return True
    if k == "listBare":
        return type(x) is list
    if k == "setBare":
        return type(x) is set
    if k == "tupleBare":
        return type(x) is tuple
    if k == "dictBare":
        return type(x) is dict
    if k == "list":
        return type(x) is list and all(has_type(ctx, a["x"], y, trust) for y in x)
    if k == "set":
        return type(x) is set and all(has_type(ctx, a["x"], y, trust) for y in x)
    if k == "dict":
        return type(x) is dict and all(has_type(ctx, a["key"], kk, trust) and has_type(ctx, a["value"], vv, trust) for kk, vv in x.items())
    if k == "union":
        return any(has_type(ctx, y, x, trust) for y in a["xs"])
    if k == "maybe":
        return x is nothing or (type(x) is Just and has_type(ctx, a["x"], x.val, trust))
    if k == "tupleVar":
        return type(x) is tuple and all(has_type(ctx, a["x"], y, trust) for y in x)
    if k == "tupleFixed":
        return type(x) is tuple and len(x) == len(a["xs"]) and all(has_type(ctx, y, z, trust) for y, z in zip(a["xs"], x))
    if k == "literal":
        return any(type(x) is type(v) and x == v for v in (wire.mk_value(ctx, v) for v in a["vs"]))
    if k == "annotated":
        return has_type(ctx, a["x"], x, trust)
    if k == "cls":
        return type(x) is ctx.cls_by_id.get(a["cls"]["id"])
    cls = ctx.cls_by_id.get(a["cls"]["id"])
    if k in ("dataclass", "namedtuple"):
        if DICT_FORM[0] and type(x) is dict:
            # the dict form of a record: declared keys only, each of its annotated type; a key may be left out
            # exactly when the class gives it a default ("requiredness is derived from the class itself")
            if any(kk not in a["names"] for kk in x):
                return False
            for n, an, d in zip(a["names"], a["anns"], a["dflts"]):
                if n in x:
                    if not has_type(ctx, an, x[n], trust):
                        return False
                elif d is None:
                    return False
            return True
        if type(x) is not cls:
            return False
        for n, an, d in zip(a["names"], a["anns"], a["dflts"]):
            if not hasattr(x, n):
                return False    # a declared field holds no value: not a value of the class's type
            fv = getattr(x, n)
            if has_type(ctx, an, fv, trust):
                continue
            # a declared default is used as is, on trust
            if trust and d is not None and wire.normalise(wire.strip_ids_public(wire.canon_value(ctx, fv))) == wire.normalise(wire.strip_ids_public(d)):
                continue
            return False
        return True
    if k == "typeddict":
        if type(x) is not dict or (not LENIENT_TD[0] and any(kk not in a["names"] for kk in x)):
            return False
        for n, an, req in zip(a["names"], a["anns"], a["reqs"]):
            if n in x:
                if not has_type(ctx, an, x[n], trust):
                    return False
            elif req:
                return False
        return True
    return False


# ---------------------------------------------------------------------------------------------
# registering the identities of the real derived validator against the model's


def register(ctx: wire.Ctx, real: Any, vd: dict, problems: List[str], path: str = "") -> None:
    import koda_validate as kv
    from koda_validate.is_type import TypeValidator
    from koda_validate.maybe import MaybeValidator
    k = vd["k"]
    if id(real) in ctx.vid:
        return      # supplied through Annotated: one of the harness's own, already registered objects
    ctx.vid[id(real)] = vd["vid"]
    ctx.keep.append(real)

    def expect(cond: bool, what: str) -> bool:
        if not cond:
            problems.append(f"{path or 'root'}: {what}: real {type(real).__name__}, model {json.dumps(vd)[:120]}")
        return cond
    if k == "scalar":
        ty = vd["ty"]
        want = build.SCALARS.get(ty) if isinstance(ty, str) else TypeValidator
        if not expect(want is not None and type(real) is want, "scalar kind"):
            return
        if isinstance(ty, dict):
            expect(real._TYPE is ctx.cls_by_id.get(ty["cls"]["id"]), "TypeValidator target")
        exp_co = vd["coerce"]
        has_co = real.coerce is not None
        expect(has_co == (exp_co is not None), "coercer presence")
        preds = list(real.predicates or [])
        if not expect(len(preds) == len(vd["preds"]), "number of predicates"):
            return
        for p, pd in zip(preds, vd["preds"]):
            ctx.pid[id(p)] = pd["pid"]
            if pd["k"] == "Choices":
                expect(isinstance(p, kv.Choices) and wire.normalise(sorted(json.dumps(wire.canon_value(ctx, c), sort_keys=True) for c in p.choices))
                       == wire.normalise(sorted(json.dumps(wire.normalise(c), sort_keys=True) for c in pd["vs"])), "Choices contents")
        expect(not real.predicates_async and vd["napreds"] == 0, "async predicates")
        expect(not real.preprocessors and vd["npre"] == 0, "preprocessors")
    elif k == "equals":
        if expect(type(real) is kv.EqualsValidator, "equals kind"):
            ctx.pid[id(real.predicate)] = vd["pid"]
            expect(wire.normalise(wire.canon_value(ctx, real.match)) == wire.normalise(vd["m"]), "match value")
    elif k == "none":
        expect(type(real) is kv.NoneValidator and (real.coerce is None) == (vd["coerce"] is None), "none kind")
    elif k == "always":
        expect(type(real) is kv.AlwaysValid, "always kind")
    elif k in ("list", "set", "utuple"):
        want = {"list": kv.ListValidator, "set": kv.SetValidator, "utuple": kv.UniformTupleValidator}[k]
        if expect(type(real) is want, "sequence kind"):
            expect(not real.predicates and vd["npreds"] == 0, "container predicates")
            expect((real.coerce is None) == (vd["coerce"] is None), "coercer presence")
            register(ctx, real.item_validator, vd["item"], problems, path + "/item")
    elif k == "ntuple":
        if expect(type(real) is kv.NTupleValidator and len(real.fields) == len(vd["fields"]), "n-tuple kind / arity"):
            ctx.pid[id(real._len_predicate)] = vd["lenPid"]
            expect((real.coerce is None) == (vd["coerce"] is None), "coercer presence")
            for i, (f, fd) in enumerate(zip(real.fields, vd["fields"])):
                register(ctx, f, fd, problems, f"{path}/{i}")
    elif k == "map":
        if expect(type(real) is kv.MapValidator, "map kind"):
            register(ctx, real.key_validator, vd["key"], problems, path + "/key")
            register(ctx, real.value_validator, vd["value"], problems, path + "/value")
    elif k == "union":
        if expect(type(real) is kv.UnionValidator and len(real.validators) == len(vd["vs"]), "union kind / variants"):
            for i, (f, fd) in enumerate(zip(real.validators, vd["vs"])):
                register(ctx, f, fd, problems, f"{path}|{i}")
    elif k == "maybe":
        if expect(type(real) is MaybeValidator, "maybe kind"):
            register(ctx, real.validator, vd["inner"], problems, path + "/just")
    elif k == "record":
        want = {"dataclass": kv.DataclassValidator, "namedtuple": kv.NamedTupleValidator, "typeddict": kv.TypedDictValidator}[vd["kind"]]
        if expect(type(real) is want, "record kind"):
            keys = list(real.schema.keys())
            if expect(keys == ["".join(map(chr, kk["s"])) for kk in vd["keys"]], "field names"):
                expect((real.coerce is None) == (vd["coerce"] is None), "coercer presence")
                expect(bool(real.fail_on_unknown_keys) == vd["failUnknown"], "unknown-key policy")
                for n, fd in zip(keys, vd["vals"]):
                    register(ctx, real.schema[n], fd, problems, f"{path}.{n}")
    else:
        # validators supplied through Annotated are the harness's own objects, already registered
        pass


def gen_case(g: AGen, opts: dict) -> dict:
    r = g.rng
    g.reset()
    g.user_rate = 0.0
    g.async_rate = 0.0
    a = g.gen_ann(r.choice([0, 1, 1, 2, 2, 3]))
    xs = []
    for _ in range(opts.get("values", 5)):
        c = r.random()
        x = g.hostile() if c < 0.15 else g.conform_ann(a)
        if 0.15 <= c < 0.5:
            x = g.near_miss(x)
        xs.append(x)
    if a["a"] in ("typeddict", "dataclass", "namedtuple") and a["names"]:
        # a record given as a dict of its fields with exactly one key left out: accepted iff that key may be absent
        x = copy.deepcopy(g.conform_ann(a))
        if x.get("t") == "inst":
            x = {"t": "dict", "oid": g.oid(), "kvs": [[{"t": "str", "s": [ord(ch) for ch in n]}, v]
                                                       for n, v in zip(x["names"], x["vals"])]}
        if x.get("t") == "dict" and x.get("kvs"):
            x["kvs"].pop(r.randrange(len(x["kvs"])))
            xs.append(x)
    return {"ann": a, "xs": xs, "classes": g.classes, "resolver": opts.get("resolver", "default")}


def _other_resolver(annotation: Any) -> Any:
    """a user-written typehint resolver: different leaves, the library's structure for everything else"""
    from koda_validate import FloatValidator, IntValidator, StringValidator, upper_case
    from koda_validate.typehints import get_typehint_validator_base
    if annotation is str:
        return StringValidator(preprocessors=[upper_case])
    if annotation is float:
        return IntValidator()
    if annotation is int:
        return FloatValidator()
    return get_typehint_validator_base(_other_resolver, annotation)


def mirror_ann(a: Any) -> Any:
    """a copy of the annotation description with every union's members and every literal's values reversed; None when
    nothing changes"""
    changed = [False]

    def go(d: Any) -> Any:
        if isinstance(d, dict):
            out = {k: go(v) for k, v in d.items() if not k.startswith("_")}
            if d.get("a") in ("union", "optional") and isinstance(out.get("xs"), list) and len(out["xs"]) > 1:
                out["xs"] = out["xs"][::-1]
                changed[0] = True
            if d.get("a") == "literal" and len(out.get("vs", [])) > 1:
                out["vs"] = out["vs"][::-1]
                changed[0] = True
            return out
        if isinstance(d, list):
            return [go(x) for x in d]
        return d
    if any(w in json.dumps(a) for w in ('"dataclass"', '"namedtuple"', '"typeddict"')):
        return None     # a generated class is built once per case: its field annotations cannot be had both ways
    m = go(a)
    return m if changed[0] else None


def run_case(case: dict, rng: random.Random) -> Tuple[Optional[str], List[dict], List[str], List[dict]]:
    """returns (unbuildable, model requests, failures, real observations)"""
    from koda_validate.typehints import get_typehint_validator
    from koda_validate.signature import resolve_signature_typehint_default
    ctx = wire.Ctx()
    try:
        # typing caches parametrisations by *equality* of the arguments (Union[a, b] == Union[b, a],
        # Literal[1, 2] == Literal[2, 1]): without clearing, Tuple[Union[date, bool]] can come back as the
        # earlier-built Tuple[Union[bool, date]], i.e. not the annotation the description says
        for _f in getattr(typing, "_cleanups", []):
            _f()
        resolver = get_typehint_validator if case["resolver"] == "default" else resolve_signature_typehint_default
        # history: the annotation with the members of every Union / Literal in reverse order - equal to, and hashing
        # like, the real one as far as `typing` is concerned - is derived first.  What is derived for the real one
        # afterwards must not depend on that.
        mirrored = mirror_ann(case["ann"])
        if mirrored is not None:
            try:
                resolver(build_ann(ctx, mirrored, random.Random(0)))
            except Exception:  # noqa
                pass
            for _f in getattr(typing, "_cleanups", []):
                _f()
        ann = build_ann(ctx, case["ann"], rng)
        # history: the same annotation is first derived through a user-written resolver (public API:
        # `typehint_resolver=` / `get_typehint_validator_base`) that answers differently for leaf types.  What the
        # library's own resolvers derive afterwards must not depend on that.
        try:
            _other_resolver(ann)
        except Exception:  # noqa
            pass
        v = resolver(ann)
        xs = [wire.mk_value(ctx, x) for x in case["xs"]]
    except Exception as e:  # noqa
        return f"{type(e).__name__}: {e}", [], [], []
    adesc = strip_priv(case["ann"])
    return None, [], [], [{"ctx": ctx, "v": v, "xs": xs, "adesc": adesc}]


def shard(seed: int, shard_i: int, n: int, opts: dict) -> dict:
    rng = random.Random(f"{seed}-{shard_i}-c07{opts.get('salt', '')}")
    g = AGen(rng)
    stats: collections.Counter = collections.Counter()
    failures: List[dict] = []
    disagreements: List[dict] = []
    distinct, nontrivial = set(), set()
    samples: List[dict] = []
    evaluated = 0
    pending: List[Tuple[dict, Any, Any, List[Any], dict]] = []
    reqs: List[dict] = []
    given = opts.get("cases")
    for i in range(len(given) if given is not None else n):
        c = given[i] if given is not None else gen_case(g, opts)
        wire.set_classes(c["classes"])
        unb, _, _, obs = run_case(c, rng)
        if unb:
            stats["unbuildable"] += 1
            if "unhandled annotation" in unb or "TypeError" in unb:
                stats["unbuildable:" + unb[:40]] += 1
            continue
        o = obs[0]
        ctx, v, xs, adesc = o["ctx"], o["v"], o["xs"], o["adesc"]
        for x in xs:
            xd = wire.canon_value(ctx, x)
            reqs.append({"op": "derive", "ann": adesc, "resolver": c["resolver"], "x": xd,
                         "oracle": oracle.tables(adesc, xd)})
        pending.append((c, ctx, v, xs, adesc))
    answers = driver.run_batch(reqs) if reqs else []
    ai = 0
    for c, ctx, v, xs, adesc in pending:
        wire.set_classes(c["classes"])
        first = answers[ai] if xs else None
        problems: List[str] = []
        if first is not None and "v" in first:
            register(ctx, v, first["v"], problems)
        h0 = engine.case_hash(adesc)
        for p in union_order_problems(ctx, c, v)[:1]:
            failures.append({"property": "C07", "case": c, "xd": None, "what": p, "real": None})
        for p in problems[:1]:
            disagreements.append({"case": c, "fields": ["derived-structure"], "real": p, "xd": None})
        for x in xs:
            a = answers[ai]
            ai += 1
            evaluated += 1
            if "error" in a:
                disagreements.append({"case": c, "fields": ["model-error"], "model": a, "xd": None})
                continue
            xd = wire.canon_value(ctx, x)
            distinct.add(engine.case_hash([adesc, xd]))
            x_has = has_type(ctx, c["ann"], x)
            stats[f"input_has_type={x_has}"] += 1
            if x_has != a["inputHasType"]:
                disagreements.append({"case": c, "fields": ["hasType(input)"], "real": x_has, "model": a["inputHasType"], "xd": xd})
            for mode in ("sync", "async"):
                real = build.run_real(ctx, v, x, mode)
                m = a[mode]
                if problems:
                    fields = ["out-verdict"] if engine.outcome_class(real).split(":")[0] != engine.outcome_class(m).split(":")[0] else []
                else:
                    fields = engine.diff_obs(real, m, ["out"])
                if fields:
                    disagreements.append({"case": c, "mode": mode, "fields": fields, "real": real["out"], "model": m.get("out"), "xd": xd})
                out = real["out"]
                stats[mode + ":" + engine.outcome_class(real).split(":")[0]] += 1
                what = None
                LENIENT_TD[0] = True
                x_has_lenient = has_type(ctx, c["ann"], x)
                LENIENT_TD[0] = False
                if "valid" in out and c["resolver"] == "signature" and not x_has_lenient and not has_annotated(c["ann"]):
                    failures.append({"property": "C09", "case": c, "xd": xd, "real": out,
                                     "what": f"{mode}: under the default signature resolution a value that is not of the annotated "
                                             f"type was accepted (coerced)"})
                if "valid" in out:
                    nontrivial.add(engine.case_hash([adesc, xd]))
                    # soundness: the payload is a value of the annotated type
                    try:
                        r = v(x) if mode == "sync" else build.drive(v.validate_async(x))
                        w = r.val
                        if not has_type(ctx, c["ann"], w, True):
                            what = f"{mode}: Valid payload is not a value of the annotated type (exact-type reading)"
                        elif x_has and not has_annotated(c["ann"]) and not union_may_convert(c["ann"]):
                            same = (w == x) if not contains_nan(xd) else True
                            if not same:
                                what = f"{mode}: the input already is a value of the type, but the payload differs from it"
                        elif x_has and not has_annotated(c["ann"]) and c["ann"]["a"] == "union" and not contains_nan(xd):
                            # a union some member of which converts: the members are tried in the order written, so if
                            # the first member the input is a value of comes before every converting member (and does
                            # not convert itself), nothing is converted and the payload is the input
                            ms = c["ann"]["xs"]
                            j = next((i for i, mm in enumerate(ms) if has_type(ctx, mm, x)), None)
                            if j is not None and not any(_converts(mm) for mm in ms[:j + 1]) and not (w == x and type(w) is type(x)):
                                what = (f"{mode}: the input is a value of member {j} of the union, no member up to there "
                                        f"converts, but the payload differs from the input")
                    except BaseException:  # noqa
                        pass
                elif "invalid" in out and x_has and c["ann"]["a"] != "annotated" and not has_annotated(c["ann"]):
                    what = f"{mode}: a value of the annotated type was rejected ({out['invalid']['err']['e']})"
                elif "invalid" in out and c["resolver"] != "signature" and not has_annotated(c["ann"]):
                    DICT_FORM[0] = True
                    try:
                        x_dict_form = has_type(ctx, c["ann"], x)
                    finally:
                        DICT_FORM[0] = False
                    if x_dict_form:
                        what = (f"{mode}: a record given as a dict of its fields (every value of its annotated type, only "
                                f"keys with a default left out) was rejected ({out['invalid']['err']['e']})")
                elif "raised" in out:
                    what = f"{mode}: raised {out['raised']}"
                if what:
                    failures.append({"property": "C07", "case": c, "xd": xd, "what": what, "real": out})
        if len(samples) < 1:
            samples.append({"ann": adesc, "values": len(xs)})
    return {"evaluated": evaluated, "stats": dict(stats), "failures": failures[:30], "n_failures": len(failures),
            "disagreements": disagreements[:10], "n_disagreements": len(disagreements),
            "distinct": list(distinct), "nontrivial": list(nontrivial), "samples": samples}


def union_order_problems(ctx: wire.Ctx, case: dict, v: Any) -> List[str]:
    """model-free: where the annotation (at the top, in a record field, in a list item) is a Union written m1, ..., mk,
    the validator derived there tries, in this order, what the same resolver derives from m1, ..., mk on their own"""
    from koda_validate import ListValidator, UnionValidator
    from koda_validate.signature import resolve_signature_typehint_default
    from koda_validate.typehints import get_typehint_validator
    resolver = get_typehint_validator if case["resolver"] == "default" else resolve_signature_typehint_default
    out: List[str] = []

    def go(a: dict, w: Any, path: str) -> None:
        k = a.get("a")
        if k == "union" and isinstance(w, UnionValidator) and len(w.validators) == len(a["xs"]):
            for i, m in enumerate(a["xs"]):
                if has_annotated(m):
                    continue
                try:
                    alone = resolver(build_ann(ctx, m, random.Random(0)))
                    if not bool(alone == resolver(build_ann(ctx, m, random.Random(0)))):
                        continue    # two derivations from this member do not even compare equal to each other (a
                        #             per-derivation closure inside): `==` cannot be used to recognise it
                    same = bool(w.validators[i] == alone)
                except Exception:  # noqa
                    continue
                if not same:
                    out.append(f"{path or 'root'}: member {i} of the validator derived for the union is not what member {i} of "
                               f"the annotation ({json.dumps(strip_priv(m))[:80]}) derives on its own: {w.validators[i]!r:.120}")
                    return
        elif k in ("dataclass", "namedtuple", "typeddict") and isinstance(getattr(w, "schema", None), dict):
            for nm, an in zip(a["names"], a["anns"]):
                if nm in w.schema:
                    go(an, w.schema[nm], f"{path}.{nm}")
        elif k == "list" and isinstance(w, ListValidator):
            go(a["x"], w.item_validator, path + "[]")
    go(case["ann"], v, "")
    return out


def replay_case(case: dict) -> List[str]:
    r = shard(0, 0, 1, {"cases": [case]})
    return [f["what"] for f in r["failures"]] + \
           [f"model and implementation differ on {d.get('fields')}" for d in r["disagreements"]]


def _converts(b: Any) -> bool:
    j = json.dumps(b)
    return any(f'"a": "{k}"' in j for k in ("decimal", "uuid", "date", "datetime", "tupleVar", "tupleFixed", "tupleBare",
                                             "dataclass", "namedtuple", "typeddict"))


def union_may_convert(a: Any) -> bool:
    """inside a union an earlier variant may accept by converting (text -> Decimal, list -> tuple, dict ->
    record) a value that already is of a later variant's type: the payload then legitimately differs"""
    if isinstance(a, dict):
        if a.get("a") == "union" and any(_converts(x) for x in a["xs"]):
            return True
        return any(union_may_convert(v) for v in a.values())
    if isinstance(a, list):
        return any(union_may_convert(v) for v in a)
    return False


def contains_nan(x: Any) -> bool:
    return '"nan"' in json.dumps(x) or '"snan"' in json.dumps(x)


def has_annotated(a: Any) -> bool:
    return '"annotated"' in json.dumps(a)


def run(pid: str, tier: str, seed: int, spec: dict, scale: float = 1.0, salt: str = "") -> dict:
    n = int((1600 if tier == "quick" else 30000) * scale)
    res = engine.run_sharded("harness.ann_stream", "shard", seed, n,
                             {"salt": salt, "values": 6 if tier == "quick" else 12, "resolver": spec.get("resolver", "default")})
    crashes = [r["crash"] for r in res if "crash" in r]
    if crashes:
        raise RuntimeError("shard crashed:\n" + crashes[0])
    out: Dict[str, Any] = {"evaluations": 0, "failures": [], "disagreements": [], "n_failures": 0, "n_disagreements": 0,
                           "samples": []}
    stats: collections.Counter = collections.Counter()
    distinct, nontrivial = set(), set()
    for r in res:
        out["evaluations"] += r["evaluated"]
        out["failures"] += r["failures"]
        out["disagreements"] += r["disagreements"]
        out["n_failures"] += r["n_failures"]
        out["n_disagreements"] += r["n_disagreements"]
        out["samples"] += r["samples"]
        stats.update(r["stats"])
        distinct.update(r["distinct"])
        nontrivial.update(r["nontrivial"])
    out["distinct_nontrivial"] = len(nontrivial)
    out["distribution"] = dict(stats)
    return out
