"""C10 (and the schema side of C11): JSON Schema generation on the real library vs the model, with a
model-free oracle (exception class, JSON-only, strict serialisation, Draft 2020-12 metaschema,
determinism, validator unmodified)."""
from __future__ import annotations

import collections
import datetime as _dt
import decimal
import json
import random
import re
import uuid
from typing import Any, Dict, List, Optional, Tuple

from . import build, driver, engine, props, wire
from .genv import VGen
from .purity_stream import snap

import os as _os
VERIF = _os.path.dirname(_os.path.dirname(_os.path.abspath(__file__)))


def to_j(x: Any, ctx: wire.Ctx) -> Any:
    """real schema value -> the wire form of the model's `J`"""
    if x is None:
        return None
    if isinstance(x, bool):
        return x
    if type(x) is int:
        return {"i": x}
    if type(x) is float:
        return {"f": wire.float_desc(x)}
    if type(x) is str:
        return {"s": [ord(c) for c in x]}
    if type(x) is list:
        return {"a": [to_j(y, ctx) for y in x]}
    if type(x) is dict:
        return {"o": [[[ord(c) for c in k] if isinstance(k, str) else {"nonstr-key": repr(k)}, to_j(v, ctx)] for k, v in x.items()]}
    return {"x": wire.canon_value(ctx, x)}


def values_in(d: Any) -> Any:
    if isinstance(d, dict):
        if "t" in d and isinstance(d.get("t"), str):
            yield d
        for v in d.values():
            yield from values_in(v)
    elif isinstance(d, list):
        for v in d:
            yield from values_in(v)


def printer_tables(*descs: Any) -> dict:
    ctx = wire.Ctx()
    seen = set()
    st, iso, dec, pat = [], [], [], []
    for d in descs:
        for vd in values_in(d):
            if vd["t"] in ("list", "set", "dict", "inst", "sub", "just", "nothing"):
                continue
            key = json.dumps(vd, sort_keys=True)
            if key in seen:
                continue
            seen.add(key)
            try:
                v = wire.mk_value(ctx, vd)
            except Exception:  # noqa
                continue
            cv = wire.canon_value(ctx, v)
            try:
                st.append([cv, [ord(c) for c in str(v)]])
            except Exception:  # noqa
                st.append([cv, None])
            if isinstance(v, _dt.date):
                iso.append([cv, [ord(c) for c in v.isoformat()]])
            if type(v) is bytes:
                try:
                    dec.append([cv, [ord(c) for c in v.decode("utf-8")]])
                except UnicodeDecodeError:
                    dec.append([cv, None])
                pat.append([cv, [ord(c) for c in f"{re.escape(v)}"]])
    return {"str": st, "iso": iso, "decode": dec, "patBytes": pat}


def type_vids(v: Any, env: List[dict]) -> List[int]:
    out = []
    for d in props.find_all(v, env):
        if d.get("k") == "scalar" and d.get("asType"):
            out.append(d["vid"])
    return out


def nonrecurrent_vids(v: Any, env: List[dict]) -> List[int]:
    return sorted({d["vid"] for d in props.find_all(v, env)
                   if d.get("k") == "lazy" and d.get("recurrent", True) is False})


def gen_case(g: VGen, opts: dict) -> dict:
    r = g.rng
    g.reset()
    g.user_rate = 0.04
    # one case in eight is drawn with many async predicates: describing a validator that has both kinds of predicate
    # (usually a TypeError) must leave both of its lists as they were
    g.async_rate = 0.03 if r.random() < 0.875 else 0.5
    g.special_rate = opts.get("special_rate", 0.06)
    v = g.gen_v(r.choice([0, 0, 1, 1, 2, 3]))
    # `Lazy(thunk, recurrent=False)`: schema generation must not follow the thunk (which may well be recursive)
    for d in list(props.find_all(v, g.env)):
        if d.get("k") == "lazy" and r.random() < 0.25:
            d["recurrent"] = False
    # a negative length / count parameter is an `int` like any other (finding D26 lives here)
    if r.random() < 0.05:
        counts = [d for d in props.find_all(v, g.env)
                  if d.get("k") in ("MinLength", "MaxLength", "ExactLength", "MinItems", "MaxItems", "ExactItemCount",
                                    "MinKeys", "MaxKeys") and "n" in d]
        if counts:
            r.choice(counts)["n"] = r.choice([-1, -2])
    # two declared keys with one str() form (finding D27: labels are str(key))
    if r.random() < 0.2:
        for d in props.find_all(v, g.env):
            if d.get("k") == "record" and d.get("kind") == "dictAny":
                ints = [k for k in d["keys"] if k.get("t") == "int"]
                strs = [k for k in d["keys"] if k.get("t") == "str"]
                if ints and strs:
                    strs[0]["s"] = [ord(ch) for ch in str(ints[0]["i"])]
                    break
    named = None
    if r.random() < 0.4:
        name = "".join(chr(r.choice([97, 65, 95, 32, 47, 35, 0xe9, 48])) for _ in range(r.choice([0, 1, 4])))
        ref = r.choice(["#/components/schemas/", "#/$defs/", "", "x/"])
        named = {"name": [ord(c) for c in name], "ref": [ord(c) for c in ref]}
    return {"env": g.env, "v": v, "classes": g.classes, "named": named}


def real_schema(case: dict) -> Tuple[Optional[str], dict, List[str]]:
    from koda_validate.serialization import to_json_schema, to_named_json_schema
    import jsonschema
    ctx = wire.Ctx()
    try:
        v = build.build(ctx, case["v"], case["env"])
    except Exception as e:  # noqa
        return f"{type(e).__name__}: {e}", {}, []
    fails: List[str] = []
    before = snap(v)

    def gen() -> Any:
        if case["named"] is None:
            return to_json_schema(v)
        nm = "".join(map(chr, case["named"]["name"]))
        ref = "".join(map(chr, case["named"]["ref"]))
        return to_named_json_schema(nm, v, ref)
    try:
        s = gen()
    except RecursionError:
        fails.append("schema generation did not terminate (RecursionError)")
        return None, {"raised": "RecursionError"}, fails
    except BaseException as e:  # noqa
        name = wire.exn_name(e)
        if not isinstance(e, TypeError):
            fails.append(f"schema generation raised {type(e).__name__} (only TypeError is allowed)")
        if snap(v) != before:
            fails.append("schema generation modified the validator")
        return None, {"raised": name}, fails
    out = {"ok": to_j(s, ctx)}
    try:
        s2 = gen()
        if to_j(s2, ctx) != out["ok"]:
            fails.append("schema generation is not deterministic")
    except BaseException as e:  # noqa
        fails.append(f"second generation raised {type(e).__name__}")
    if snap(v) != before:
        fails.append("schema generation modified the validator")
    nonjson = '"x":' in json.dumps(out["ok"]) or "nonstr-key" in json.dumps(out["ok"])
    if nonjson:
        fails.append("the schema contains a non-JSON object: " + find_nonjson(s))
    else:
        try:
            json.dumps(s, allow_nan=False)
        except (ValueError, TypeError) as e:
            fails.append(f"the schema does not serialise to strict JSON: {e}")
            nonjson = True
    if not nonjson:
        body = s
        if case["named"] is not None:
            body = list(s.values())[0]
        try:
            jsonschema.Draft202012Validator.check_schema(body)
        except jsonschema.exceptions.SchemaError as e:
            fails.append("not a valid Draft 2020-12 schema: " + str(e.message)[:120])
    out["jsonOnly"] = not nonjson
    if case["named"] is not None and isinstance(s, dict):
        # "recursive validators terminate by emitting a reference to the named schema": every `$ref` of the named
        # schema is <ref_location><name> of *this* call
        want = "".join(map(chr, case["named"]["ref"])) + "".join(map(chr, case["named"]["name"]))
        for r_ in all_refs(s):
            if r_ != want:
                fails.append(f"a $ref of the named schema is {r_!r}, not {want!r} (the location and name of this call)")
                break
    fails += bare_predicates(v, s if case["named"] is None else list(s.values())[0], fails)
    return None, out, fails


def all_refs(j: Any) -> List[Any]:
    out: List[Any] = []
    if isinstance(j, dict):
        for k, x in j.items():
            if k == "$ref" and isinstance(x, str):      # (a *property* called "$ref" maps to a schema, not a string)
                out.append(x)
            else:
                out += all_refs(x)
    elif isinstance(j, (list, tuple)):
        for x in j:
            out += all_refs(x)
    return out


def bare_predicates(v: Any, body: Any, known: List[str]) -> List[str]:
    """"for any validator *or predicate*": each predicate of the root validator is also handed to to_json_schema on its
    own; the fragment it returns must be the one found in the validator's schema (directly, or under `allOf`)"""
    from koda_validate.serialization import to_json_schema
    out: List[str] = []
    if not isinstance(body, dict):
        return out
    for p in list(getattr(v, "predicates", None) or []):
        try:
            frag = to_json_schema(p)
        except TypeError:
            out.append("a predicate alone is refused (TypeError) although the validator holding it got a schema")
            continue
        except BaseException as e:  # noqa
            out.append(f"to_json_schema(predicate) raised {type(e).__name__} (only TypeError is allowed)")
            continue
        if not isinstance(frag, dict):
            out.append("to_json_schema(predicate) did not return an object")
            continue
        inline = all(k in body and (body[k] is val or body[k] == val) for k, val in frag.items())
        under = any(isinstance(a, dict) and a == frag for a in (body.get("allOf") or []))
        if not (inline or under):
            out.append("the schema of a predicate alone is not the fragment found in its validator's schema")
    return out


def find_nonjson(s: Any) -> str:
    if isinstance(s, dict):
        for k, v in s.items():
            if not isinstance(k, str):
                return f"key {k!r}"
            r = find_nonjson(v)
            if r:
                return f"{k} -> {r}"
        return ""
    if isinstance(s, list):
        for v in s:
            r = find_nonjson(v)
            if r:
                return r
        return ""
    if s is None or isinstance(s, (bool, int, float, str)):
        return ""
    return f"{type(s).__name__} {s!r}"[:60]


def shard(seed: int, shard_i: int, n: int, opts: dict) -> dict:
    rng = random.Random(f"{seed}-{shard_i}-c10{opts.get('salt', '')}")
    g = VGen(rng)
    reqs, reals, cases = [], [], []
    failures: List[dict] = []
    stats: collections.Counter = collections.Counter()
    distinct = set()
    nontrivial = set()
    samples: List[dict] = []
    from . import registry
    corpus = [c for c in registry.load_corpus("C10")] if shard_i == 0 else []
    for i in range(n + len(corpus)):
        c = corpus[i] if i < len(corpus) else gen_case(g, opts)
        wire.set_classes(c["classes"])
        unb, out, fails = real_schema(c)
        if unb:
            stats["unbuildable"] += 1
            continue
        h = engine.case_hash({"v": c["v"], "named": c["named"]})
        distinct.add(h)
        stats["raised:" + out["raised"] if "raised" in out else "schema"] += 1
        if "ok" in out:
            nontrivial.add(h)
        for f in fails:
            failures.append({"property": "C10", "case": c, "xd": c["named"], "what": f, "real": out if "raised" in out else None})
        cases.append(c)
        reals.append(out)
        req = {"op": "schema", "v": c["v"], "typeVids": type_vids(c["v"], c["env"]),
               "nonRecurrent": nonrecurrent_vids(c["v"], c["env"]),
               "printer": printer_tables(c["v"], c["env"])}
        if c["named"] is not None:
            req["named"] = c["named"]
        reqs.append(req)
        if len(samples) < 1 and "ok" in out:
            samples.append({"v": c["v"], "named": c["named"]})
    # determinism across the history of the process: the schema of a validator is the same after any
    # number of other schemas have been generated (module-level state, shared output objects)
    n_hist = 0
    for j, (c, out) in enumerate(zip(cases, reals)):
        if "ok" not in out or n_hist >= 1:      # one minimised history per shard (each candidate costs a fresh interpreter)
            continue
        wire.set_classes(c["classes"])
        _, out2, _ = real_schema(c)
        if out2 != out:
            n_hist += 1
            hist = minimise_history(c, cases[j + 1:])
            failures.append({"property": "C10", "case": dict(c, history=hist), "xd": c["named"],
                             "what": "schema generation is not deterministic: the schema of the same validator "
                                     f"changed after {len(hist)} other schema(s) were generated in the same process",
                             "real": out2})
    # determinism across processes: another interpreter, with other string hashes (hence other set iteration orders),
    # generates the same schemas
    batch = [(c, out) for c, out in zip(cases, reals) if "ok" in out and record_like(c["v"])][:int(opts.get("cross", 40))]
    CROSS_RAN[0] = False
    for c, what in other_process_differs(batch, seed * 101 + shard_i + 1):
        failures.append({"property": "C10", "case": dict(c, cross=seed * 101 + shard_i + 1), "xd": c["named"], "what": what, "real": None})
    stats["compared-with-another-process" if CROSS_RAN[0] else "other-process-unavailable"] += len(batch)
    answers = driver.run_batch(reqs) if reqs else []
    disagreements = []
    for c, real, a in zip(cases, reals, answers):
        if "error" in a:
            disagreements.append({"case": c, "fields": ["model-error"], "model": a, "xd": c["named"]})
            continue
        if real != a:
            fields = ["exception-class"] if ("raised" in real or "raised" in a) else ["schema"]
            disagreements.append({"case": c, "fields": fields, "real": json.dumps(real)[:1500], "model": json.dumps(a)[:1500], "xd": c["named"]})
    return {"evaluated": len(cases), "stats": dict(stats), "failures": failures[:30], "n_failures": len(failures),
            "disagreements": disagreements[:10], "n_disagreements": len(disagreements),
            "distinct": list(distinct), "nontrivial": list(nontrivial), "samples": samples}


def run(pid: str, tier: str, seed: int, spec: dict, scale: float = 1.0, salt: str = "") -> dict:
    n = int((4000 if tier == "quick" else 100000) * scale)
    res = engine.run_sharded("harness.schema_stream", "shard", seed, n, {"salt": salt})
    crashes = [r["crash"] for r in res if "crash" in r]
    if crashes:
        raise RuntimeError("shard crashed:\n" + crashes[0])
    out: Dict[str, Any] = {"evaluations": 0, "failures": [], "disagreements": [], "n_failures": 0, "n_disagreements": 0,
                           "samples": []}
    stats: collections.Counter = collections.Counter()
    distinct, nontrivial = set(), set()
    for r in res:
        out["evaluations"] += r["evaluated"]
        out["failures"] += r["failures"]
        out["disagreements"] += r["disagreements"]
        out["n_failures"] += r["n_failures"]
        out["n_disagreements"] += r["n_disagreements"]
        out["samples"] += r["samples"]
        stats.update(r["stats"])
        distinct.update(r["distinct"])
        nontrivial.update(r["nontrivial"])
    out["distinct_nontrivial"] = len(nontrivial)
    out["distribution"] = dict(stats)
    return out


def history_fails(case: dict) -> List[str]:
    """in a fresh process: schema of the case, then of its `history`, then of the case again"""
    wire.set_classes(case.get("classes", []))
    unb, out, fails = real_schema(case)
    if unb:
        return ["case cannot be built: " + unb]
    for h in case.get("history", []):
        wire.set_classes(h.get("classes", []))
        real_schema(h)
    wire.set_classes(case.get("classes", []))
    _, out2, _ = real_schema(case)
    if out2 != out:
        fails.append("schema generation is not deterministic: the schema of the same validator changed after "
                     f"{len(case.get('history', []))} other schema(s) were generated in the same process")
    return fails


def in_subprocess(case: dict) -> bool:
    import os
    import subprocess
    import sys
    import tempfile
    with tempfile.NamedTemporaryFile("w", suffix=".json", delete=False) as f:
        json.dump(case, f)
    try:
        p = subprocess.run([sys.executable, "-m", "harness.schema_stream", f.name], cwd=VERIF,
                           stdout=subprocess.PIPE, stderr=subprocess.DEVNULL, timeout=120)
        return b"not deterministic" in p.stdout
    except Exception:  # noqa
        return False
    finally:
        os.unlink(f.name)


def record_like(v: Any) -> bool:
    """a validator description with a record / map / set inside: where an order could come from a set or dict"""
    t = json.dumps(v)
    return any(f'"k": "{k}"' in t for k in ("record", "dictAny", "dataclass", "namedtuple", "typeddict", "map", "set"))


CROSS_RAN = [False]      # whether the last call of other_process_differs got an answer for every case


def other_process_differs(batch: List[Tuple[dict, dict]], hashseed: int) -> List[Tuple[dict, str]]:
    """[(case, what)] for the cases whose schema, generated by a fresh interpreter started with PYTHONHASHSEED=hashseed,
    is not the schema generated here"""
    import os
    import subprocess
    import sys
    import tempfile
    if not batch:
        return []
    with tempfile.NamedTemporaryFile("w", suffix=".json", delete=False) as f:
        json.dump([c for c, _ in batch], f)
    try:
        env = dict(os.environ, PYTHONHASHSEED=str(hashseed % 4294967295 or 1))
        p = subprocess.run([sys.executable, "-m", "harness.schema_stream", "--batch", f.name], cwd=VERIF, env=env,
                           stdout=subprocess.PIPE, stderr=subprocess.DEVNULL, timeout=300)
        lines = p.stdout.decode().splitlines()
        if p.returncode != 0 or len(lines) != len(batch):
            return []           # the worker could not run: nothing is concluded
        out = []
        CROSS_RAN[0] = True
        for (c, here), line in zip(batch, lines):
            there = json.loads(line)
            if "ok" in there and there["ok"] != here["ok"]:
                out.append((c, "schema generation is not deterministic: an interpreter started with another string-hash "
                               f"seed (PYTHONHASHSEED={env['PYTHONHASHSEED']}) generates a different schema for the same validator"))
        return out
    except Exception:  # noqa
        return []
    finally:
        os.unlink(f.name)


def minimise_history(c: dict, later: List[dict]) -> List[dict]:
    """a short list of later cases after which the schema of `c` changes (each candidate is tried in a
    fresh interpreter, since the state that leaks is the interpreter's)"""
    for h in later[:25]:
        if in_subprocess(dict(c, history=[h])):
            return [h]
    lo = list(later)
    while len(lo) > 1:
        half = lo[:len(lo) // 2]
        if in_subprocess(dict(c, history=half)):
            lo = half
        elif in_subprocess(dict(c, history=lo[len(lo) // 2:])):
            lo = lo[len(lo) // 2:]
        else:
            break
    return lo


def replay_case(case: dict) -> List[str]:
    if case.get("history"):
        return history_fails(case)
    if case.get("cross"):
        wire.set_classes(case.get("classes", []))
        unb, out, fails = real_schema(case)
        if unb or "ok" not in out:
            return fails if not unb else ["case cannot be built: " + unb]
        return fails + [w for _, w in other_process_differs([(case, out)], case["cross"])]
    wire.set_classes(case.get("classes", []))
    unb, out, fails = real_schema(case)
    return fails if not unb else ["case cannot be built: " + unb]


if __name__ == "__main__":
    import sys
    if sys.argv[1] == "--batch":
        for c_ in json.load(open(sys.argv[2])):
            wire.set_classes(c_.get("classes", []))
            unb_, out_, _ = real_schema(c_)
            print(json.dumps(out_ if not unb_ else {"unbuildable": unb_}))
    else:
        for f_ in history_fails(json.load(open(sys.argv[1]))):
            print(f_)
