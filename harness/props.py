"""Per-property oracles over (case, real observations, model answers)."""
from __future__ import annotations
from typing import Any, Dict, List
