"""Per-property oracles over (case, real observations, model answers).

Each `oracle_Cxx(case, real, model)` returns a list of human-readable failure strings (empty = the
property held on this case).  Relational properties are checked *model-free*: the real library is run
again on sub-validators / sub-values / the other entry point and the results are compared with each
other.  `model` is only consulted where the property is a specification (C02, C04's gate, C15, C16),
and there the proved Lean model *is* the specification.
"""
from __future__ import annotations

import copy
import json
from typing import Any, Dict, Iterable, List, Optional, Tuple

from . import build, engine, wire

MODES = ("sync", "async")


ORDER_FREE = False


def set_case(case: dict) -> None:
    """a coercer that turns a *set* into a sequence makes element order depend on the set object's
    iteration order, which differs between the object validated in context and the equal object an oracle
    rebuilds to run a child alone: for such cases results are compared modulo sequence order"""
    global ORDER_FREE
    ORDER_FREE = '"tupleFromAny"' in json.dumps([case.get("v"), case.get("env")])


def norm(x: Any) -> Any:
    return sort_seqs(wire.normalise(x)) if ORDER_FREE else wire.normalise(x)


def has_set(xd: Any) -> bool:
    if isinstance(xd, dict):
        return xd.get("t") == "set" or any(has_set(v) for v in xd.values())
    if isinstance(xd, list):
        return any(has_set(v) for v in xd)
    return False


def order_decided_by_a_set(xd: Any) -> bool:
    """the case has a coercer that turns a set into a sequence and this value holds a set: which element meets which
    position (and so which errors arise) depends on the set object's iteration order, which the equal object an oracle
    rebuilds need not share - nothing can be compared"""
    return ORDER_FREE and has_set(xd)


def sort_seqs(x: Any) -> Any:
    """forget the order of every list / tuple value (used when the order was decided by iterating a set)"""
    if isinstance(x, dict):
        y = {k: sort_seqs(v) for k, v in x.items()}
        if y.get("t") in ("list", "tuple") and isinstance(y.get("xs"), list):
            y["xs"] = sorted(y["xs"], key=lambda e: json.dumps(e, sort_keys=True))
        if isinstance(y.get("children"), list) and isinstance(y.get("err"), dict) and y["err"].get("e") == "index":
            # the element errors of a sequence whose order came from a set
            y["children"] = sorted(y["children"], key=lambda e: json.dumps(e, sort_keys=True))
        return y
    if isinstance(x, list):
        return [sort_seqs(v) for v in x]
    return x




def run_alone(vdesc: dict, env: List[dict], xdesc: dict, mode: str) -> dict:
    """run one validator description on one value description with the real library, fresh objects"""
    ctx = wire.Ctx()
    rv = build.build(ctx, vdesc, env)
    rx = wire.mk_value(ctx, xdesc)
    return build.run_real(ctx, rv, rx, mode)


def unwrap_user(v: dict) -> dict:
    while v["k"] == "user":
        v = v["inner"]
    return v


EV_NS = {"pred": "pid", "apred": "pid", "proc": "pid", "uv": "vid", "coerce": "cid", "oc": "id", "aoc": "id",
         "into": "id"}


def ev_key(ev: list) -> Tuple[str, int]:
    return (EV_NS[ev[0]], ev[1])


def subtree_ids(v: dict, env: List[dict], seen: Optional[set] = None) -> set:
    """(namespace, id) pairs that can appear in trace events of a validator subtree"""
    out: set = set()
    seen = seen if seen is not None else set()

    def go(d: Any) -> None:
        if isinstance(d, dict):
            if d.get("k") == "lazy":
                if d["ref"] not in seen:
                    seen.add(d["ref"])
                    go(env[d["ref"]])
            for key in ("vid", "pid", "cid", "id"):
                if key in d and isinstance(d[key], int) and "kind" not in d:
                    out.add((key, d[key]))
                elif key == "vid" and key in d:
                    out.add((key, d[key]))
            for x in d.values():
                go(x)
        elif isinstance(d, list):
            for x in d:
                go(x)
    go(v)
    return out


def find_all(v: Any, env: List[dict]) -> Any:
    """every dict of a validator description and of its environment"""
    def go(d: Any) -> Any:
        if isinstance(d, dict):
            yield d
            for x in d.values():
                yield from go(x)
        elif isinstance(d, list):
            for x in d:
                yield from go(x)
    yield from go(v)
    yield from go(env)


def has_async(v: Any, env: List[dict], seen: Optional[set] = None) -> bool:
    """is an async-only check configured anywhere in the tree (following Lazy references)?"""
    seen = seen if seen is not None else set()
    if isinstance(v, dict):
        if v.get("k") == "lazy":
            if v["ref"] in seen:
                return False
            seen.add(v["ref"])
            return has_async(env[v["ref"]], env, seen)
        if v.get("apreds"):
            return True
        if v.get("aoc"):
            return True
        return any(has_async(x, env, seen) for x in v.values())
    if isinstance(v, list):
        return any(has_async(x, env, seen) for x in v)
    return False


DOCUMENTED_ERRS = {"type", "coercion", "preds", "index", "keys", "map", "set", "union", "container", "extraKeys",
                   "missingKey", "custom"}


# ---------------------------------------------------------------------------------------------
# C01 totality


def oracle_C01(case: dict, real: dict, model: dict) -> List[str]:
    out = []
    env = case.get("env", [])
    for m in MODES:
        o = real[m]["out"]
        if "valid" in o:
            continue
        if "invalid" in o:
            for node in engine.walk_inv(o["invalid"]):
                if node["err"]["e"] not in DOCUMENTED_ERRS:
                    out.append(f"{m}: undocumented error type {node['err']}")
                if node["vid"] == -1:
                    out.append(f"{m}: error node names an unknown validator object")
            continue
        if "raised" in o:
            if m == "sync" and o["raised"] == "AssertionError" and has_async(case["v"], env):
                continue
            out.append(f"{m}: raised {o['raised']}")
            continue
        out.append(f"{m}: returned neither Valid nor Invalid: {o}")
    out += cached_total(case, env, real)
    return out


def cached_total(case: dict, env: List[dict], real: dict) -> List[str]:
    """the same validator behind a cache wrapper (a composition like any other): a miss, then a hit, on each entry
    point, must each return a Valid / Invalid as well"""
    from .cache_stream import DictCache
    out = []
    for m in MODES:
        try:
            ctx = wire.Ctx()
            rv = build.build(ctx, case["v"], env)
            rx = wire.mk_value(ctx, real[m].get("xd") or real["xd"])
        except Exception:  # noqa
            return out
        cv = DictCache(rv, lambda v: id(v), [])
        for turn in ("miss", "hit"):
            o = build.run_real(ctx, cv, rx, m)["out"]
            if "raised" in o:
                if m == "sync" and o["raised"] == "AssertionError" and has_async(case["v"], env):
                    break
                if "raised" in real[m]["out"]:
                    break       # the validator itself raises here: reported above (or a listed finding), once
                out.append(f"{m}: behind a cache wrapper ({turn}) the call raised {o['raised']}")
                break
            if "valid" not in o and "invalid" not in o:
                out.append(f"{m}: behind a cache wrapper ({turn}) returned neither Valid nor Invalid")
                break
    return out


# ---------------------------------------------------------------------------------------------
# C06 sync/async agreement


def oracle_C06(case: dict, real: dict, model: dict) -> List[str]:
    out = []
    s, a = real["sync"], real["async"]
    so, ao = s["out"], a["out"]
    env = case.get("env", [])
    if "raised" in so and so["raised"] == "AssertionError":
        if not has_async(case["v"], env):
            out.append("sync raised AssertionError although no async-only check is configured")
        return out
    if "raised" in so or "raised" in ao:
        # totality failures are C01's business; agreement is only claimed for returned results
        if norm(so) != norm(ao):
            out.append(f"sync and async differ in raising: {so.get('raised')} vs {ao.get('raised')}")
        return out
    if norm(so) != norm(ao):
        out.append("sync result differs from awaited async result")
    # the sync call returned: the async run must not have evaluated an async-only check
    for ev in a["trace"]:
        if ev[0] in ("apred", "aoc"):
            out.append(f"sync call returned, but the async run evaluated async-only check {ev}")
            break
    return out


# ---------------------------------------------------------------------------------------------
# C14 provenance


def oracle_C14(case: dict, real: dict, model: dict) -> List[str]:
    """walk the real error tree against the validator description tree"""
    out: List[str] = []
    env = case.get("env", [])
    for m in MODES:
        o = real[m]["out"]
        if "invalid" not in o:
            continue
        prov(case["v"], env, real["xd"], o["invalid"], m, out, m + ":root")
    return out


def same_obj(a: dict, b: dict) -> bool:
    """same object: equal canonical forms; containers and instances of the input carry unique
    non-zero oids, so equal forms mean the very same object (scalars: typed equality)"""
    return norm(a) == norm(b)


def prov(v: dict, env: List[dict], x: dict, inv: dict, mode: str, out: List[str], where: str,
         fuel: int = 200) -> None:
    """error node `inv` was produced by validator `v` given value `x`"""
    if fuel <= 0:
        return
    k = v["k"]
    e = inv["err"]["e"]
    if k == "user":
        return prov(v["inner"], env, x, inv, mode, out, where, fuel - 1)
    if k == "lazy":
        return prov(env[v["ref"]], env, x, inv, mode, out, where, fuel - 1)
    if k == "knr":
        return prov(v["inner"], env, x, inv, mode, out, where, fuel - 1)
    if inv["vid"] != v["vid"]:
        out.append(f"{where}: error names validator {inv['vid']}, responsible is {v['vid']} ({k})")
        return
    if e in ("type", "coercion"):
        if not same_obj(inv["value"], x):
            out.append(f"{where}: {e} error does not hold the caller's own object")
        return
    if k in ("union", "optional"):
        if e != "union":
            out.append(f"{where}: union reported {e}")
            return
        if not same_obj(inv["value"], x):
            out.append(f"{where}: union error does not hold the input")
        vs = v["vs"] if k == "union" else [v["noneV"], v["inner"]]
        if len(inv["children"]) != len(vs):
            out.append(f"{where}: {len(inv['children'])} variant errors for {len(vs)} variants")
            return
        for i, (cv, ci) in enumerate(zip(vs, inv["children"])):
            prov(cv, env, x, ci, mode, out, f"{where}/variant{i}", fuel - 1)
        return
    if k == "maybe":
        if e != "container":
            out.append(f"{where}: maybe reported {e}")
            return
        if not same_obj(inv["value"], x):
            out.append(f"{where}: container error does not hold the Just it was given")
        if x["t"] == "just":
            prov(v["inner"], env, x["v"], inv["children"][0], mode, out, where + "/just", fuel - 1)
        return
    if k in ("list", "set", "utuple", "ntuple"):
        coerced = inv["value"]
        if e == "preds":
            # container-level predicate (arity for n-tuples): holds the coerced container
            if not holds_coerced(v, x, coerced):
                out.append(f"{where}: container predicate error holds {coerced.get('t')} oid={coerced.get('oid')}, "
                           f"not the coerced container")
            return
        if e in ("index", "set"):
            if not holds_coerced(v, x, coerced):
                out.append(f"{where}: element error does not hold the coerced container")
            elems = coerced.get("xs", [])
            if e == "index":
                for idx, ci in zip(inv["err"]["idx"], inv["children"]):
                    if idx >= len(elems):
                        out.append(f"{where}: index {idx} out of range")
                        continue
                    cv = v["item"] if k != "ntuple" else v["fields"][idx]
                    prov(cv, env, elems[idx], ci, mode, out, f"{where}[{idx}]", fuel - 1)
            else:
                for ci in inv["children"]:
                    # the member this child error belongs to: some member of the set
                    if not any(prov_clean(v["item"], env, el, ci, mode) for el in elems):
                        out.append(f"{where}: set member error matches no member of the set")
            return
        if e == "custom" and k == "ntuple":
            # `validate_object` failed: the error holds the tuple that was *built* from the slots' payloads
            src = x.get("xs") if x.get("t") in ("list", "tuple") else None
            if src is not None and len(src) == len(v["fields"]):
                pays = []
                for cv, el in zip(v["fields"], src):
                    r = run_alone(cv, env, el, mode)["out"]
                    if "valid" not in r:
                        pays = None
                        break
                    pays.append(r["valid"])
                if pays is not None:
                    if coerced.get("t") != "tuple" or norm(coerced.get("xs")) != norm(pays):
                        out.append(f"{where}: validate_object error does not hold the tuple built from the slots' payloads")
                    elif coerced.get("oid") != 0 and pays:
                        out.append(f"{where}: validate_object error holds a caller's object, not the built tuple")
            return
        out.append(f"{where}: {k} reported {e}")
        return
    if k == "map":
        coerced = inv["value"]
        if e == "preds":
            if not holds_coerced(v, x, coerced):
                out.append(f"{where}: map predicate error does not hold the coerced dict")
            return
        if e == "map":
            if not holds_coerced(v, x, coerced):
                out.append(f"{where}: map error does not hold the coerced dict")
            kvs = {json.dumps(norm(kk), sort_keys=True): (kk, vv) for kk, vv in coerced.get("kvs", [])}
            ci = iter(inv["children"])
            for key, (hk, hv) in zip(inv["err"]["ks"], inv["err"]["shape"]):
                kk = json.dumps(norm(key), sort_keys=True)
                if kk not in kvs:
                    out.append(f"{where}: map error keyed by something that is not an original key")
                    continue
                if hk:
                    prov(v["key"], env, kvs[kk][0], next(ci), mode, out, f"{where}/key", fuel - 1)
                if hv:
                    prov(v["value"], env, kvs[kk][1], next(ci), mode, out, f"{where}/val", fuel - 1)
            return
        out.append(f"{where}: map reported {e}")
        return
    if k == "record":
        held = inv["value"]
        if e == "extraKeys":
            if not holds_coerced(v, x, held):
                out.append(f"{where}: unknown-keys error does not hold the (coerced) input dict")
            return
        if e == "keys":
            if not holds_coerced(v, x, held):
                out.append(f"{where}: key error does not hold the (coerced) input dict")
            data = held if held["t"] == "dict" else (held.get("v") if held["t"] == "sub" else None)
            kvs = data.get("kvs", []) if data else []
            for key, ci in zip(inv["err"]["ks"], inv["children"]):
                decl = [i for i, dk in enumerate(v["keys"]) if norm(dk) == norm(key)]
                if not decl:
                    out.append(f"{where}: key error for an undeclared key")
                    continue
                cv = v["vals"][decl[0]]
                if ci["err"]["e"] == "missingKey" and ci["vid"] == v["vid"]:
                    if not same_obj(ci["value"], held):
                        out.append(f"{where}: missing-key error does not hold the dict being validated")
                    continue
                found = [vv for kk, vv in kvs if py_eq_desc(kk, key)]
                if not found:
                    out.append(f"{where}: error for key that is absent from the input")
                    continue
                prov(cv, env, found[0], ci, mode, out, f"{where}.{json.dumps(norm(key))[:30]}", fuel - 1)
            return
        if e == "custom":
            # a whole-object check failed: it was given (and the error holds) the object *built* from the fields'
            # payloads, which is a new object, never the caller's
            if held.get("t") in ("dict", "tuple", "list", "inst") and held.get("oid", 0) != 0 and \
                    not (held.get("t") == "tuple" and not held.get("xs")):
                out.append(f"{where}: whole-object error holds a caller's object, not the object built from the payloads")
            return
        out.append(f"{where}: record validator reported {e}")
        return
    if k in ("scalar", "equals"):
        if e != "preds":
            out.append(f"{where}: scalar reported {e}")
            return
        # a predicate failure holds the value the predicates were given: the coerced, then preprocessed value
        # (computed here with the real coercer and processor objects, not with the model)
        exp = later_stage_value(v, env, x)
        if exp is not None and norm(inv["value"]) != norm(exp):
            out.append(f"{where}: predicate error holds {json.dumps(norm(inv['value']))[:80]}, the coerced / "
                       f"preprocessed value is {json.dumps(norm(exp))[:80]}")
        return
    if k in ("none", "isDict"):
        out.append(f"{where}: {k} reported {e}")
        return


def later_stage_value(v: dict, env: List[dict], x: dict) -> Optional[dict]:
    """what a scalar / equality validator has in hand after coercion and preprocessing, computed with the real
    coercer and processors of a freshly built validator (None: cannot be computed model-free)"""
    try:
        ctx = wire.Ctx()
        rv = build.build(ctx, v, env)
        val = wire.mk_value(ctx, x)
        co = getattr(rv, "coerce", None)
        if co is not None:
            m = co(val)
            if not getattr(m, "is_just", False):
                return None
            val = m.val
        for p in (getattr(rv, "preprocessors", None) or []):
            val = p(val)
        return wire.canon_value(ctx, val)
    except Exception:  # noqa
        return None


def prov_clean(v: dict, env: List[dict], x: dict, inv: dict, mode: str) -> bool:
    o: List[str] = []
    prov(v, env, x, inv, mode, o, "")
    return not o


def py_eq_desc(a: dict, b: dict) -> bool:
    ctx = wire.Ctx()
    try:
        return bool(wire.mk_value(ctx, a) == wire.mk_value(ctx, b))
    except Exception:  # noqa
        return norm(a) == norm(b)


def holds_coerced(v: dict, x: dict, held: dict) -> bool:
    """`held` is the value a later stage of `v` has in hand for input `x`: the input itself (by
    identity) when no coercion changed it, else a fresh object with the input's contents"""
    co = v.get("coerce")
    want = {"list": "list", "set": "set", "utuple": "tuple", "ntuple": "tuple", "map": "dict"}.get(v["k"])
    if co is not None and want is not None and held.get("t") not in (want, "sub"):
        # a later stage holds what the coercer returned, which is of the validator's container type: not the
        # raw input of another type
        return False
    if norm(held) == norm(x):
        return True   # same object (oids equal)
    if co is None and not (v["k"] == "record" and v["kind"] in ("dataclass", "namedtuple") and x["t"] == "inst"):
        return False
    # coerced: contents must come from the input
    hx = held.get("xs")
    if hx is not None:
        xx = x.get("xs")
        if isinstance(co, dict) and co["fn"]["f"] in ("tupleTail", "listTail"):
            # these coercers do not keep the contents: an int is wrapped, the first element of the other sequence
            # type is dropped
            xx = [x] if x["t"] == "int" else (xx[1:] if xx is not None else None)
        if xx is None:
            return False
        a = sorted(json.dumps(norm(i), sort_keys=True) for i in hx)
        b = sorted(json.dumps(norm(i), sort_keys=True) for i in xx)
        return a == b or held["t"] == "set"
    if held["t"] == "dict":
        if x["t"] == "inst":
            hv = [norm(p[1]) for p in held["kvs"]]
            xv = [norm(i) for i in x["vals"]]
            if hv != xv:
                return False
            if x["cls"]["kind"] == 1 and not x["cls"]["slots"]:
                # the instance's own __dict__ (instances built from defaults carry no registered identity)
                return held["oid"] == x.get("doid", 0)
            return held["oid"] == 0
        return True
    return False


# ---------------------------------------------------------------------------------------------
# C03 collections: model-free re-run of the child on every element


def seq_gate(v: dict, x: dict) -> Optional[List[dict]]:
    """elements of the coerced container if the container gate passes under the documented
    coercions, None if it must fail; raises KeyError for user coercers (not decided here)"""
    k = v["k"]
    co = v.get("coerce")
    want = {"list": "list", "set": "set", "utuple": "tuple", "ntuple": "tuple"}[k]
    if co is None:
        return x["xs"] if x["t"] == want else None
    if co == "default":
        return x["xs"] if x["t"] in ("tuple", "list") else None
    raise KeyError("user coercer")


def oracle_C03(case: dict, real: dict, model: dict) -> List[str]:
    out: List[str] = []
    v = unwrap_user(case["v"])
    env = case.get("env", [])
    if v["k"] not in ("list", "set", "utuple", "ntuple", "map"):
        return out
    x = real["xd"]
    for m in MODES:
        o = real[m]["out"]
        if "raised" in o:
            continue
        child_ids = set()
        for cv in ([v["item"]] if "item" in v else v.get("fields", []) + ([v["key"], v["value"]] if v["k"] == "map" else [])):
            child_ids |= subtree_ids(cv, env)
        own = {("pid", p["pid"]) for p in (v.get("preds") or []) + (v.get("apreds") or [])}
        child_events = [ev for ev in real[m]["trace"] if ev_key(ev) in child_ids and ev_key(ev) not in own]
        if "invalid" in o and o["invalid"]["vid"] == v["vid"] and o["invalid"]["err"]["e"] in ("type", "coercion", "preds"):
            if child_events:
                out.append(f"{m}: container-level failure but elements were validated: {child_events[:3]}")
            if o["invalid"]["err"]["e"] == "preds" and v["k"] != "ntuple":
                out += reported_preds_wrong(v, o["invalid"], m)
            continue
        # elements as the documented gate yields them
        try:
            if v["k"] == "map":
                if v.get("coerce") is not None:
                    continue
                if x["t"] != "dict":
                    out.append(f"{m}: map validator got past its gate on a {x['t']}")
                    continue
                elems = None
            else:
                elems = seq_gate(v, x)
                if elems is None:
                    out.append(f"{m}: {v['k']} validator got past its gate on a {x['t']}")
                    continue
        except KeyError:
            continue
        # container-level predicates, evaluated with the real predicate objects on the gated container: if one
        # of them fails, the container must not be accepted (whatever the elements are)
        if "valid" in o and v["k"] != "ntuple":
            pf = failing_container_preds(v, x, m)
            if pf:
                out.append(f"{m}: container predicates {pf} fail on the container, yet it is accepted")
                continue
        if v["k"] == "map":
            out += check_map(v, env, x, o, m)
            continue
        kids = [v["item"]] * len(elems) if v["k"] != "ntuple" else v["fields"]
        if v["k"] == "ntuple" and len(elems) != len(kids):
            out.append(f"{m}: n-tuple of wrong arity got past the arity check")
            continue
        if order_decided_by_a_set(elems):
            continue
        results = [run_alone(cv, env, el, m)["out"] for cv, el in zip(kids, elems)]
        if any("raised" in r for r in results):
            continue
        bad = [i for i, r in enumerate(results) if "invalid" in r]
        if not bad:
            if "valid" not in o:
                if v["k"] == "ntuple" and v.get("oc") and o["invalid"]["err"]["e"] == "custom":
                    continue
                out.append(f"{m}: every element is accepted by the child, yet the container is rejected")
                continue
            pay = [r["valid"] for r in results]
            exp_t = {"list": "list", "set": "set", "utuple": "tuple", "ntuple": "tuple"}[v["k"]]
            got = o["valid"]
            if got["t"] != exp_t:
                out.append(f"{m}: payload is a {got['t']}, expected {exp_t}")
            elif got["oid"] != 0 and not (exp_t == "tuple" and not got["xs"]):
                out.append(f"{m}: payload is not a new container")
            elif exp_t == "set":
                if norm({"t": "set", "oid": 0, "xs": got["xs"]}) != norm(py_set(pay)):
                    out.append(f"{m}: set payload is not the set of the children's payloads")
            elif norm(got["xs"]) != norm(pay):
                out.append(f"{m}: payload elements are not the children's payloads in order")
        else:
            if "invalid" not in o:
                out.append(f"{m}: elements {bad} are rejected by the child, yet the container is accepted")
                continue
            inv = o["invalid"]
            if v["k"] == "set":
                if inv["err"]["e"] != "set":
                    out.append(f"{m}: set rejected with {inv['err']['e']}")
                elif sorted(json.dumps(norm(c), sort_keys=True) for c in inv["children"]) != \
                        sorted(json.dumps(norm(results[i]["invalid"]), sort_keys=True) for i in bad):
                    out.append(f"{m}: set member errors are not exactly the children's own errors")
            else:
                if inv["err"]["e"] != "index":
                    out.append(f"{m}: sequence rejected with {inv['err']['e']} instead of index errors")
                elif sorted(inv["err"]["idx"]) != bad:
                    out.append(f"{m}: failing positions {inv['err']['idx']} reported, children reject {bad}")
                elif norm([c for _, c in sorted(zip(inv["err"]["idx"], inv["children"]), key=lambda p: p[0])]) != \
                        norm([results[i]["invalid"] for i in bad]):
                    # (IndexErrs is a dict: its insertion order is not part of what it says)
                    out.append(f"{m}: an index error is not the child's own Invalid")
    return out


def reported_preds_wrong(v: dict, inv: dict, mode: str) -> List[str]:
    """a container-predicate error lists exactly the predicates that fail on the container the error holds (the
    coerced one, whatever the coercer): each predicate is re-evaluated, with the real predicate object, on that value"""
    ctx = wire.Ctx()
    out: List[str] = []
    try:
        held = wire.mk_value(ctx, inv["value"])
        reported = set(inv["err"]["pids"])
        for pd in (v.get("preds") or []):
            r = build.mk_pred(ctx, pd)(held)
            if r is False and pd["pid"] not in reported:
                out.append(f"{mode}: container predicate {pd['k']} (pid {pd['pid']}) fails on the container the error holds but is not listed")
            if r is True and pd["pid"] in reported:
                out.append(f"{mode}: container predicate {pd['k']} (pid {pd['pid']}) is listed as failing but holds on the container the error holds")
    except Exception:  # noqa
        return []
    return out


def failing_container_preds(v: dict, x: dict, mode: str) -> List[str]:
    """names of the container's own predicates (sync ones; in async mode also the async ones) that return False
    on the gated container; only for validators without coercer or with the default tuple coercer"""
    co = v.get("coerce")
    ctx = wire.Ctx()
    try:
        xv = wire.mk_value(ctx, x)
        if co == "default" and v["k"] == "utuple":
            xv = tuple(xv)
        elif co is not None:
            return []
        names = []
        for pd in (v.get("preds") or []):
            p = build.mk_pred(ctx, pd)
            if p(xv) is False:
                names.append(pd["k"])
        if mode == "async":
            for pd in (v.get("apreds") or []):
                p = build.mk_apred(ctx, pd) if hasattr(build, "mk_apred") else None
                if p is None:
                    continue
                if build.drive(p.validate_async(xv)) is False:
                    names.append("async:" + pd["k"])
        return names
    except Exception:  # noqa
        return []


def py_set(pay: List[dict]) -> dict:
    ctx = wire.Ctx()
    s = set()
    for p in pay:
        s.add(wire.mk_value(ctx, p))
    return {"t": "set", "oid": 0, "xs": [wire.canon_value(ctx, e) for e in s]}


def check_map(v: dict, env: List[dict], x: dict, o: dict, m: str) -> List[str]:
    out: List[str] = []
    kr = [run_alone(v["key"], env, kk, m)["out"] for kk, _ in x["kvs"]]
    vr = [run_alone(v["value"], env, vv, m)["out"] for _, vv in x["kvs"]]
    if any("raised" in r for r in kr + vr):
        return out
    if order_decided_by_a_set(x["kvs"]):
        return out
    bad = [i for i in range(len(kr)) if "invalid" in kr[i] or "invalid" in vr[i]]
    if not bad:
        if "valid" not in o:
            return [f"{m}: all keys and values accepted, yet the map is rejected"]
        ctx = wire.Ctx()
        exp: Dict[Any, Any] = {}
        try:
            for a, b in zip(kr, vr):
                exp[wire.mk_value(ctx, a["valid"])] = wire.mk_value(ctx, b["valid"])
        except TypeError:
            return out
        expd = wire.canon_value(ctx, exp)
        expd["oid"] = 0
        if o["valid"].get("oid") != 0:
            out.append(f"{m}: map payload is not a new dict")
        if norm(o["valid"]) != norm(expd):
            out.append(f"{m}: map payload is not built from the children's payloads")
        return out
    if "invalid" not in o:
        return [f"{m}: pairs {bad} rejected by the children, yet the map is accepted"]
    inv = o["invalid"]
    if inv["err"]["e"] != "map":
        return [f"{m}: map rejected with {inv['err']['e']}"]
    exp_ks = [x["kvs"][i][0] for i in bad]
    if norm(inv["err"]["ks"]) != norm(exp_ks):
        out.append(f"{m}: map errors keyed by {len(inv['err']['ks'])} keys, children reject {len(bad)} pairs")
        return out
    exp_children = []
    exp_shape = []
    for i in bad:
        hk, hv = "invalid" in kr[i], "invalid" in vr[i]
        exp_shape.append([hk, hv])
        if hk:
            exp_children.append(kr[i]["invalid"])
        if hv:
            exp_children.append(vr[i]["invalid"])
    if inv["err"]["shape"] != exp_shape or norm(inv["children"]) != norm(exp_children):
        out.append(f"{m}: key/value parts of a map error are not the children's own errors")
    return out


# ---------------------------------------------------------------------------------------------
# C05 unions and wrappers: run variants / inner validators separately


def map_law(case: dict, env: List[dict], real: dict) -> List[str]:
    """`result.map(f)`: a Valid payload is transformed (f applied once, to the payload itself), an Invalid comes back
    untouched and f is not called; on the real result objects"""
    from koda_validate import Invalid, Valid
    out: List[str] = []
    for m in MODES:
        if "raised" in real[m]["out"]:
            continue
        try:
            ctx = wire.Ctx()
            rv = build.build(ctx, case["v"], env)
            rx = wire.mk_value(ctx, real[m].get("xd") or real["xd"])
            r = rv(rx) if m == "sync" else build.drive(rv.validate_async(rx))
        except BaseException:  # noqa
            continue
        calls: List[Any] = []

        def f(a: Any, calls: List[Any] = calls) -> Any:
            calls.append(a)
            return ("mapped", a)
        try:
            r2 = r.map(f)
        except BaseException as e:  # noqa
            out.append(f"{m}: result.map raised {type(e).__name__}")
            continue
        if type(r) is Valid:
            if type(r2) is not Valid or len(calls) != 1 or calls[0] is not r.val or not (
                    type(r2.val) is tuple and len(r2.val) == 2 and r2.val[0] == "mapped" and r2.val[1] is r.val):
                out.append(f"{m}: Valid.map does not return Valid(f(payload)) with f applied once to the payload")
        elif type(r) is Invalid:
            if calls or type(r2) is not Invalid or r2.err_type is not r.err_type or r2.value is not r.value \
                    or r2.validator is not r.validator:
                out.append(f"{m}: Invalid.map does not leave the Invalid untouched")
        if type(r) is Valid:
            # … also when f's result compares equal to the payload (an equal value of another type, a rebuilt copy)
            try:
                r3 = r.map(_EqualToAnything)
                if type(r3) is not Valid or type(r3.val) is not _EqualToAnything or r3.val.a is not r.val:
                    out.append(f"{m}: Valid.map(f) does not carry f(payload) when f(payload) == payload")
            except BaseException as e:  # noqa
                out.append(f"{m}: result.map raised {type(e).__name__}")
    return out


class _EqualToAnything:
    """what a mapped function may return: a value that compares equal to its argument without being it"""

    def __init__(self, a: Any) -> None:
        self.a = a

    def __eq__(self, other: Any) -> bool:
        return True

    def __ne__(self, other: Any) -> bool:
        return False

    def __hash__(self) -> int:
        return 0


def oracle_C05(case: dict, real: dict, model: dict) -> List[str]:
    out: List[str] = []
    v = case["v"]
    env = case.get("env", [])
    x = real["xd"]
    k = v["k"]
    if case.get("c05map", True):
        out += map_law(case, env, real)
    for m in MODES:
        o = real[m]["out"]
        if "raised" in o and k not in ("lazy", "user"):
            continue
        if k in ("union", "optional"):
            vs = v["vs"] if k == "union" else [v["noneV"], v["inner"]]
            rs = []
            for cv in vs:
                r = run_alone(cv, env, x, m)
                rs.append(r)
                if "valid" in r["out"] or "raised" in r["out"]:
                    break
            if any("raised" in r["out"] for r in rs):
                continue
            first = next((i for i, r in enumerate(rs) if "valid" in r["out"]), None)
            if first is not None:
                if "valid" not in o:
                    out.append(f"{m}: variant {first} accepts but the union rejects")
                elif norm(o["valid"]) != norm(rs[first]["out"]["valid"]):
                    out.append(f"{m}: union payload is not the first accepting variant's payload")
                later = set()
                for cv in vs[first + 1:]:
                    later |= subtree_ids(cv, env)
                earlier = set()
                for cv in vs[:first + 1]:
                    earlier |= subtree_ids(cv, env)
                consulted = [ev for ev in real[m]["trace"] if ev_key(ev) in later and ev_key(ev) not in earlier]
                if consulted:
                    out.append(f"{m}: variants after the first accepting one were consulted: {consulted[:3]}")
            else:
                if "invalid" not in o:
                    out.append(f"{m}: no variant accepts but the union accepts")
                else:
                    inv = o["invalid"]
                    if inv["err"]["e"] != "union" or norm(inv["children"]) != norm([r["out"]["invalid"] for r in rs]):
                        out.append(f"{m}: union error is not the list of every variant's own error in order")
        elif k in ("lazy", "user"):
            inner = env[v["ref"]] if k == "lazy" else v["inner"]
            r = run_alone(inner, env, x, m)["out"]
            if norm(r) != norm(o):
                out.append(f"{m}: {k} wrapper does not return what the wrapped validator returns")
        elif k == "maybe":
            if x["t"] == "nothing":
                if norm(o) != {"valid": {"t": "nothing"}}:
                    out.append(f"{m}: nothing is not mapped to nothing")
            elif x["t"] == "just":
                r = run_alone(v["inner"], env, x["v"], m)["out"]
                if "raised" in r:
                    continue
                if "valid" in r:
                    if "valid" not in o or norm(o["valid"]) != norm({"t": "just", "oid": 0, "v": r["valid"]}):
                        out.append(f"{m}: Just(x) is not mapped to a new Just(payload of x)")
                elif "invalid" not in o or o["invalid"]["err"]["e"] != "container" or \
                        norm(o["invalid"]["children"]) != norm([r["invalid"]]):
                    out.append(f"{m}: rejected Just does not carry the inner validator's error")
            elif "invalid" not in o or o["invalid"]["err"]["e"] != "type":
                out.append(f"{m}: maybe validator accepted / mis-reported a non-Maybe value")
        elif k == "always":
            if norm(o) != norm({"valid": x}):
                out.append(f"{m}: AlwaysValid did not return the value unchanged")
        elif k == "knr":
            r = run_alone(v["inner"], env, x, m)["out"]
            if "valid" in r:
                if "valid" not in o or norm(o["valid"]) != norm({"t": "just", "oid": 0, "v": r["valid"]}):
                    out.append(f"{m}: KeyNotRequired did not wrap the payload in Just")
            elif norm(r) != norm(o):
                out.append(f"{m}: KeyNotRequired changed the inner validator's error")
    return out


# ---------------------------------------------------------------------------------------------
# C17 fixed point


def idem_tree(v: Any, env: List[dict], seen: Optional[set] = None, allow_takeover: bool = False) -> bool:
    """the tree is inside C17's quantifier: no user coercers / non-idempotent processors, unions
    with coercer- and processor-free variants, dict-building record targets, KeyNotRequired only in
    key position (free-standing markers are generated only there)"""
    seen = seen if seen is not None else set()
    if isinstance(v, list):
        return all(idem_tree(x, env, seen, allow_takeover) for x in v)
    if not isinstance(v, dict):
        return True
    k = v.get("k")
    if k == "lazy":
        if v["ref"] in seen:
            return True
        seen.add(v["ref"])
        return idem_tree(env[v["ref"]], env, seen, allow_takeover)
    if isinstance(v.get("coerce"), dict):
        return False
    for p in v.get("pre") or []:
        if p["k"] == "user":
            return False
    if k in ("union", "optional") and not allow_takeover:
        vs = v["vs"] if k == "union" else [v["inner"]]
        if len(vs) > 1 or k == "optional":
            for cv in vs:
                if not coerce_free(cv, env, set()):
                    return False
    if k == "record":
        if v["kind"] == "record" and v["into"]["f"] != "dictOf":
            return False
        if v["kind"] == "record" and any(not r for r in v["reqs"]):
            # absent optional keys become `nothing` in the built dict, which the child rejects
            return False
    if k == "none" and v.get("coerce"):
        return False
    return all(idem_tree(x, env, seen, allow_takeover) for key, x in v.items() if key not in ("m", "v", "vs_", "keys", "defaults", "cls"))


def coerce_free(v: Any, env: List[dict], seen: set) -> bool:
    if isinstance(v, list):
        return all(coerce_free(x, env, seen) for x in v)
    if not isinstance(v, dict):
        return True
    if v.get("k") == "lazy":
        if v["ref"] in seen:
            return True
        seen.add(v["ref"])
        return coerce_free(env[v["ref"]], env, seen)
    if v.get("coerce") or v.get("pre"):
        return False
    if v.get("k") == "record" and v["kind"] in ("dataclass", "namedtuple", "record"):
        return False   # these rebuild / convert their input
    return all(coerce_free(x, env, seen) for key, x in v.items() if key not in ("m", "keys", "defaults", "cls"))


def oracle_C17(case: dict, real: dict, model: dict) -> List[str]:
    out: List[str] = []
    env = case.get("env", [])
    if not idem_tree(case["v"], env, allow_takeover=True):
        return out
    # a union / optional with coercing or preprocessing variants is inside the property's quantifier, and finding D25
    # lives there: a failure under such a tree is reported only with the takeover established on the real code at a
    # union the explanation can reach (through lists, tuples, maps, records); one it cannot reach is left undecided
    takeover_only = not idem_tree(case["v"], env)
    same: List[str] = []
    if not defaults_accepted([case["v"]] + list(env), env):
        return out
    for m in MODES:
        o = real[m]["out"]
        if "valid" not in o:
            continue
        if m == "sync" and has_async(case["v"], env):
            continue   # the payload may reach an async-configured child the input did not
        w = wire_fresh(o["valid"])
        r2 = run_alone(case["v"], env, w, m)["out"]
        if "raised" in r2:
            out.append(f"{m}: re-validating the payload raised {r2['raised']}")
        elif "valid" not in r2:
            cp = container_pred_node(case["v"], env, r2["invalid"])
            if cp:
                out.append(f"{m}: the validator rejects its own payload: container predicate {cp} fails on the payload")
            else:
                out.append(f"{m}: the validator rejects its own payload ({r2['invalid']['err']['e']})" + _d25(case, env, real, o, m))
        elif norm(strip_ids(r2["valid"])) != norm(strip_ids(w)):
            out.append(f"{m}: re-validating the payload changed it" + _d25(case, env, real, o, m))
        # "with the same validator": the instance that produced the payload re-validates it exactly as a freshly
        # built one does (whatever that is - D25 included); a difference means the first call left something behind
        try:
            ctx = wire.Ctx()
            rv = build.build(ctx, case["v"], env)
            r1 = build.run_real(ctx, rv, wire.mk_value(ctx, real[m].get("xd") or real["xd"]), m)["out"]
            if "valid" in r1:
                r2s = build.run_real(ctx, rv, wire.mk_value(ctx, wire_fresh(r1["valid"])), m)["out"]
                if norm(strip_ids(r2s)) != norm(strip_ids(r2)):
                    same.append(f"{m}: the validator instance that produced the payload re-validates it differently from a "
                                f"freshly built one: {json.dumps(norm(strip_ids(r2s)))[:100]} vs "
                                f"{json.dumps(norm(strip_ids(r2)))[:100]}")
        except Exception:  # noqa
            pass
    if takeover_only:
        out = [f for f in out if "[explained-by:D25]" in f]
    return out + same


def _d25(case: dict, env: List[dict], real: dict, o: dict, m: str) -> str:
    why = union_takeover(case["v"], env, real[m].get("xd") or real["xd"], o["valid"], m)
    return f" [explained-by:D25] ({why})" if why else ""


def union_takeover(v: dict, env: List[dict], x: dict, w: dict, m: str, depth: int = 0) -> Optional[str]:
    """finding D25, established on the real code: below `v` there is a union in which the payload produced by the
    variant that accepted the input is accepted, on re-validation, by an *earlier* variant (which may then coerce or
    preprocess it differently).  `x`: the input at this node, `w`: the payload this node returned."""
    if depth > 10 or not isinstance(v, dict) or not isinstance(x, dict) or not isinstance(w, dict):
        return None
    k = v.get("k")
    try:
        if k == "lazy":
            return union_takeover(env[v["ref"]], env, x, w, m, depth + 1)
        if k in ("user", "knr"):
            return union_takeover(v["inner"], env, x, w, m, depth + 1)
        if k == "optional":
            return None if x.get("t") == "none" else union_takeover(v["inner"], env, x, w, m, depth + 1)
        if k == "maybe":
            if x.get("t") == "just" and w.get("t") == "just":
                return union_takeover(v["inner"], env, x["v"], w["v"], m, depth + 1)
            return None
        if k == "union":
            first = None
            for i, var in enumerate(v["vs"]):
                if "valid" in run_alone(var, env, x, m)["out"]:
                    first = i
                    break
            if first is None:
                return None
            for j in range(first):
                if "valid" in run_alone(v["vs"][j], env, wire_fresh(w), m)["out"]:
                    return f"union {v['vid']}: variant {first} produced the payload, variant {j} accepts it on re-validation"
            return union_takeover(v["vs"][first], env, x, w, m, depth + 1)
        if k in ("list", "set", "utuple"):
            xs, ws = x.get("xs"), w.get("xs")
            if isinstance(xs, list) and isinstance(ws, list) and len(xs) == len(ws):
                for a, b in zip(xs, ws):
                    r = union_takeover(v["item"], env, a, b, m, depth + 1)
                    if r:
                        return r
            return None
        if k == "ntuple":
            xs, ws = x.get("xs"), w.get("xs")
            if isinstance(xs, list) and isinstance(ws, list) and len(xs) == len(ws) == len(v["fields"]):
                for f, a, b in zip(v["fields"], xs, ws):
                    r = union_takeover(f, env, a, b, m, depth + 1)
                    if r:
                        return r
            return None
        if k == "map":
            xk, wk = x.get("kvs"), w.get("kvs")
            if isinstance(xk, list) and isinstance(wk, list) and len(xk) == len(wk):
                for (ka, va), (kb, vb) in zip(xk, wk):
                    r = union_takeover(v["key"], env, ka, kb, m, depth + 1) or union_takeover(v["value"], env, va, vb, m, depth + 1)
                    if r:
                        return r
            return None
        if k == "record" and x.get("t") == "dict":
            given = {json.dumps(strip_ids(kk), sort_keys=True): vv for kk, vv in x["kvs"]}
            if w.get("t") == "dict":
                got = {json.dumps(strip_ids(kk), sort_keys=True): vv for kk, vv in w["kvs"]}
            elif w.get("t") == "inst":
                got = {json.dumps({"t": "str", "s": [ord(c) for c in n]}, sort_keys=True): vv for n, vv in zip(w["names"], w["vals"])}
            elif w.get("t") in ("tuple", "list") and len(w["xs"]) == len(v["keys"]):
                got = {json.dumps(strip_ids(kk), sort_keys=True): vv for kk, vv in zip(v["keys"], w["xs"])}
            else:
                return None
            for kk, cv in zip(v["keys"], v["vals"]):
                key = json.dumps(strip_ids(kk), sort_keys=True)
                if key in given and key in got:
                    b = got[key]
                    if cv.get("k") == "knr" or (isinstance(b, dict) and b.get("t") == "just" and given[key].get("t") != "just"):
                        if not (isinstance(b, dict) and b.get("t") == "just"):
                            continue
                        b = b["v"]
                    r = union_takeover(cv, env, given[key], b, m, depth + 1)
                    if r:
                        return r
            return None
    except Exception:  # noqa
        return None
    return None


def defaults_accepted(v: Any, env: List[dict]) -> bool:
    """record-class defaults are accepted unchanged by their own field validators"""
    if isinstance(v, list):
        return all(defaults_accepted(x, env) for x in v)
    if not isinstance(v, dict):
        return True
    if v.get("k") == "record" and v["kind"] in ("dataclass", "namedtuple"):
        for cv, d in zip(v["vals"], v["defaults"]):
            if d is None:
                continue
            r = run_alone(cv, env, wire_fresh(d), "async")["out"]
            if "valid" not in r or norm(strip_ids(r["valid"])) != norm(strip_ids(d)):
                return False
    return all(defaults_accepted(x, env) for key, x in v.items() if key not in ("m", "keys", "defaults", "cls"))


def find_node(v: Any, env: List[dict], vid: int, seen: Optional[set] = None) -> Optional[dict]:
    seen = seen if seen is not None else set()
    if isinstance(v, list):
        for x in v:
            r = find_node(x, env, vid, seen)
            if r:
                return r
        return None
    if not isinstance(v, dict):
        return None
    if v.get("k") == "lazy" and v["ref"] not in seen:
        seen.add(v["ref"])
        r = find_node(env[v["ref"]], env, vid, seen)
        if r:
            return r
    if v.get("vid") == vid and "k" in v:
        return v
    for x in v.values():
        r = find_node(x, env, vid, seen)
        if r:
            return r
    return None


def container_pred_node(v: dict, env: List[dict], inv: dict) -> Optional[str]:
    """is the (first) leaf of this error tree a container-level predicate failure of a collection
    validator?  returns 'kind:predicates' """
    for node in engine.walk_inv(inv):
        if node["err"]["e"] == "preds":
            n = find_node(v, env, node["vid"])
            if n and n["k"] in ("list", "set", "utuple", "map"):
                kinds = [p["k"] for p in (n.get("preds") or []) + (n.get("apreds") or []) if p["pid"] in node["err"]["pids"]]
                return n["k"] + ":" + ",".join(kinds)
            return None
    return None


def wire_fresh(x: Any) -> Any:
    """give every container of a payload a fresh distinct oid so that it can be rebuilt as input"""
    counter = [5000]

    def go(d: Any) -> Any:
        if isinstance(d, dict):
            d = {k: go(v) for k, v in d.items()}
            if "oid" in d:
                counter[0] += 1
                d["oid"] = counter[0]
            if d.get("doid") == 0 and d.get("t") == "inst" and d["cls"]["kind"] == 1 and not d["cls"]["slots"]:
                counter[0] += 1
                d["doid"] = counter[0]
            return d
        if isinstance(d, list):
            return [go(v) for v in d]
        return d
    return go(copy.deepcopy(x))


def strip_ids(x: Any) -> Any:
    if isinstance(x, dict):
        return {k: (0 if k in ("oid", "doid") else strip_ids(v)) for k, v in x.items()}
    if isinstance(x, list):
        return [strip_ids(v) for v in x]
    return x


# ---------------------------------------------------------------------------------------------
# C04 record-shaped validators: model-free recomputation from the children's own verdicts


def oracle_C04(case: dict, real: dict, model: dict) -> List[str]:
    out: List[str] = []
    v = unwrap_user(case["v"])
    env = case.get("env", [])
    if v["k"] != "record":
        return out
    kind = v["kind"]
    x = real["xd"]
    for m in MODES:
        o = real[m]["out"]
        if "raised" in o:
            continue
        # 1. the input gate, as the statement lists it
        co = v.get("coerce")
        if isinstance(co, dict):
            continue    # custom coercers: the gate is whatever the user function says
        data = None
        held_fresh = False
        if x["t"] == "dict":
            ok = co is None or kind in ("record", "dictAny")
            data = x["kvs"]
        elif x["t"] == "sub" and x["v"]["t"] == "dict":
            ok = kind == "record"
            data = x["v"]["kvs"]
        elif x["t"] == "inst" and kind in ("dataclass", "namedtuple") and norm(x["cls"]) == norm(v["cls"]):
            ok = True
            data = [[{"t": "str", "s": [ord(c) for c in n]}, val] for n, val in zip(x["names"], x["vals"])]
            held_fresh = True
        else:
            ok = False
        if not ok:
            if "invalid" not in o or o["invalid"]["vid"] != v["vid"] or o["invalid"]["err"]["e"] not in ("type", "coercion"):
                out.append(f"{m}: input of the wrong shape ({x['t']}) got past the {kind} validator's gate")
            elif real[m]["trace"] and not all(ev[0] == "uv" for ev in real[m]["trace"]):
                out.append(f"{m}: gate failure but something was evaluated: {real[m]['trace'][:3]}")
            continue
        assert data is not None
        if "invalid" in o and o["invalid"]["vid"] == v["vid"] and o["invalid"]["err"]["e"] in ("type", "coercion"):
            out.append(f"{m}: a {x['t']} input was rejected at the {kind} validator's gate")
            continue
        child_ids = set()
        for cv in v["vals"]:
            child_ids |= subtree_ids(cv, env)
        # 2. unknown keys, decided before any value is validated
        declared = v["keys"]
        unknown = [kk for kk, _ in data if not any(py_eq_desc(kk, dk) for dk in declared)]
        if v.get("failUnknown") and unknown:
            if "invalid" not in o or o["invalid"]["err"]["e"] != "extraKeys":
                out.append(f"{m}: undeclared key present and forbidden, but no extra-keys error")
            else:
                if norm({"e": "extraKeys", "ks": o["invalid"]["err"]["ks"]}) != norm({"e": "extraKeys", "ks": declared}):
                    out.append(f"{m}: extra-keys error does not report the declared key set")
                evs = [ev for ev in real[m]["trace"] if ev_key(ev) in child_ids]
                if evs:
                    out.append(f"{m}: unknown keys must be decided before any value is validated: {evs[:3]}")
            continue
        if "invalid" in o and o["invalid"]["err"]["e"] == "extraKeys":
            out.append(f"{m}: extra-keys error although no undeclared key is present / they are allowed")
            continue
        # 3. per declared key
        exp_err_keys: List[dict] = []
        exp_children: List[Any] = []
        payloads: List[Any] = []
        raised = False
        for dk, cv, req in zip(declared, v["vals"], v["reqs"]):
            found = [vv for kk, vv in data if py_eq_desc(kk, dk)]
            if not found:
                if req:
                    exp_err_keys.append(dk)
                    exp_children.append("missing")
                payloads.append(None)
                continue
            r = run_alone(cv, env, found[0], m)["out"]
            if "raised" in r:
                raised = True
                break
            if "invalid" in r:
                exp_err_keys.append(dk)
                exp_children.append(r["invalid"])
                payloads.append(None)
            else:
                payloads.append(r["valid"])
        if raised:
            continue
        if exp_err_keys:
            if "invalid" not in o or o["invalid"]["err"]["e"] != "keys":
                out.append(f"{m}: keys {len(exp_err_keys)} fail (missing / invalid) but the validator did not report key errors")
                continue
            inv = o["invalid"]
            if norm(inv["err"]["ks"]) != norm(exp_err_keys):
                out.append(f"{m}: key errors for {len(inv['err']['ks'])} keys; exactly {len(exp_err_keys)} keys fail")
                continue
            for ch, exp in zip(inv["children"], exp_children):
                if exp == "missing":
                    if ch["err"]["e"] != "missingKey" or ch["vid"] != v["vid"]:
                        out.append(f"{m}: missing required key not reported as MissingKeyErr by this validator")
                elif norm(ch) != norm(exp):
                    out.append(f"{m}: a key error is not the child's own Invalid")
            if any(ev[0] in ("oc", "aoc") for ev in real[m]["trace"] if ev_key(ev) not in child_ids):
                out.append(f"{m}: whole-object check ran although a key failed")
            if "missing" not in exp_children:
                out += sibling_instance(v, env, x, m, o)
            continue
        if "invalid" in o and o["invalid"]["err"]["e"] == "keys":
            out.append(f"{m}: key errors reported although every key passes")
            continue
        # 4. payload built only from the children's payloads for declared keys
        exp = expected_record_payload(v, payloads)
        got = o["valid"] if "valid" in o else (o["invalid"]["value"] if o["invalid"]["err"]["e"] == "custom" else None)
        if got is None:
            out.append(f"{m}: all keys pass but the validator reported {o['invalid']['err']['e']}")
        elif exp is not None and norm(strip_ids(got)) != norm(strip_ids(exp)):
            out.append(f"{m}: the built object is not constructed from exactly the children's payloads of the declared keys")
        elif got.get("oid", 0) != 0:
            out.append(f"{m}: the payload is not a newly built object")
    return out


def sibling_instance(v: dict, env: List[dict], x: dict, m: str, o: dict) -> List[str]:
    """every declared key's value is validated by *this* validator's child for that key: a second validator for the
    same target class (same process, same class object) whose children accept everything accepts the input the first
    rejected for its values - and building it does not change what the first one answers"""
    if isinstance(v.get("coerce"), dict):
        return []
    v2 = copy.deepcopy(v)
    v2["vid"] = 88000
    # (RecordValidator marks an optional key by a KeyNotRequired child: kept)
    v2["vals"] = [{"k": "knr", "vid": 89001 + i, "inner": {"k": "always", "vid": 88001 + i}} if cv.get("k") == "knr"
                  else {"k": "always", "vid": 88001 + i} for i, cv in enumerate(v["vals"])]
    v2["oc"] = None
    v2["aoc"] = None
    out: List[str] = []
    try:
        for order in ("first-then-sibling", "sibling-then-first"):
            ctx = wire.Ctx()
            if order == "first-then-sibling":
                ra, rb = build.build(ctx, v, env), build.build(ctx, v2, env)
            else:
                rb, ra = build.build(ctx, v2, env), build.build(ctx, v, env)
            ob = build.run_real(ctx, rb, wire.mk_value(ctx, x), m)["out"]
            oa = build.run_real(ctx, ra, wire.mk_value(ctx, x), m)["out"]
            if "valid" not in ob:
                out.append(f"{m}: a second {v['kind']} validator for the same target, whose field validators accept everything, "
                           f"rejects the input ({order}): a declared key is not validated by its own validator; it answered {json.dumps(ob)[:300]}")
            if norm(strip_ids(oa)) != norm(strip_ids(o)):
                out.append(f"{m}: the validator answers differently once a second validator for the same target exists ({order})")
            if out:
                break
    except Exception:  # noqa
        return []
    return out


def expected_record_payload(v: dict, payloads: List[Any]) -> Optional[dict]:
    kind = v["kind"]
    if kind in ("dictAny", "typeddict"):
        return {"t": "dict", "oid": 0, "kvs": [[k, p] for k, p in zip(v["keys"], payloads) if p is not None]}
    if kind in ("dataclass", "namedtuple"):
        vals = []
        for p, d in zip(payloads, v["defaults"]):
            vals.append(p if p is not None else d)
        if any(x is None for x in vals):
            return None
        return {"t": "inst", "oid": 0, "doid": 0, "cls": v["cls"], "names": list(v["fieldNames"]), "vals": vals}
    args = [p if p is not None else {"t": "nothing"} for p in payloads]
    f = v["into"]["f"]
    if f == "tupleOf":
        return {"t": "tuple", "oid": 0, "xs": args}
    if f == "listOf":
        return {"t": "list", "oid": 0, "xs": args}
    ctx = wire.Ctx()
    d: Dict[Any, Any] = {}
    for k, a in zip(v["into"]["keys"], args):
        d[wire.mk_value(ctx, k)] = wire.mk_value(ctx, a)
    return wire.canon_value(ctx, d)


# ---------------------------------------------------------------------------------------------
# C02 scalar pipeline: the proved model is the specification of the determined fields; on top of
# that, model-free invariants of the real result and of the callback log


def oracle_C02(case: dict, real: dict, model: dict) -> List[str]:
    out: List[str] = []
    v = unwrap_user(case["v"])
    if v["k"] not in ("scalar", "equals", "none"):
        return out
    x = real["xd"]
    for m in MODES:
        o = real[m]["out"]
        mo = model[m].get("out")
        if mo is not None and norm(o) != norm(mo):
            out.append(f"{m}: result differs from the specification (proved model): {engine.outcome_class(real[m])} vs "
                       f"{engine.outcome_class(model[m])}")
        if "raised" in o:
            continue
        if v["k"] != "scalar":
            continue
        preds = v.get("preds") or []
        apreds = (v.get("apreds") or []) if m == "async" else []
        order = [p["pid"] for p in preds] + [p["pid"] for p in apreds]
        if "invalid" in o:
            inv = o["invalid"]
            e = inv["err"]["e"]
            if e in ("type", "coercion"):
                if norm(inv["value"]) != norm(x):
                    out.append(f"{m}: {e} error does not carry the original value")
                if any(ev[0] in ("pred", "apred", "proc") for ev in real[m]["trace"]):
                    out.append(f"{m}: predicates / processors ran although the gate failed")
                continue
            if e != "preds":
                out.append(f"{m}: scalar validator reported {e}")
                continue
            pids = inv["err"]["pids"]
            it = iter(order)
            if not all(any(p == q for q in it) for p in pids):   # subsequence of the declaration order
                out.append(f"{m}: failing predicates {pids} are not listed in declaration order (sync before async)")
        # reached the predicate stage: every user predicate was evaluated exactly once, none skipped
        n_user = sum(1 for p in preds if p["k"] == "user")
        seen = [ev for ev in real[m]["trace"] if ev[0] == "pred"]
        if len(seen) != n_user:
            out.append(f"{m}: {len(seen)} sync predicate calls for {n_user} configured predicates")
        if m == "async":
            seen_a = [ev[1] for ev in real[m]["trace"] if ev[0] == "apred"]
            if seen_a != [p["pid"] for p in apreds]:
                out.append(f"{m}: async predicates awaited {seen_a}, configured {[p['pid'] for p in apreds]}")
    return out


# ---------------------------------------------------------------------------------------------
# C16 default coercions: the validator versus the standard constructor (model-free)


def oracle_C16(case: dict, real: dict, model: dict) -> List[str]:
    import datetime as _dt
    import decimal as _dec
    import uuid as _uuid
    out: List[str] = []
    v = unwrap_user(case["v"])
    x = real["xd"]
    if v["k"] == "scalar" and v.get("coerce") == "default" and v["ty"] in ("decimal", "uuid", "date", "datetime") \
            and not v.get("pre") and not v.get("preds") and not v.get("apreds"):
        ty = v["ty"]
        ctx = wire.Ctx()
        px = wire.mk_value(ctx, x)
        target = {"decimal": _dec.Decimal, "uuid": _uuid.UUID, "date": _dt.date, "datetime": _dt.datetime}[ty]
        sources = {"decimal": (str, int), "uuid": (str,), "date": (str,), "datetime": (str,)}[ty]
        ctor = {"decimal": _dec.Decimal, "uuid": _uuid.UUID, "date": _dt.date.fromisoformat,
                "datetime": _dt.datetime.fromisoformat}[ty]
        compat = sorted(["str", ty] + (["int"] if ty == "decimal" else []))
        exp: Any
        if type(px) is target:
            exp = ("same", px)
        elif type(px) in sources and type(px) is not bool:
            try:
                exp = ("parsed", ctor(px))
            except (ValueError, _dec.InvalidOperation, TypeError):
                exp = ("reject", None)
        elif isinstance(px, sources):
            exp = ("unspecified", None)    # subclasses of the *source* types are outside the claim
        else:
            exp = ("reject", None)
        for m in MODES:
            o = real[m]["out"]
            if exp[0] == "unspecified" or "raised" in o:
                continue
            if exp[0] == "reject":
                if "invalid" not in o:
                    out.append(f"{m}: {ty} validator accepted a {type(px).__name__} the standard constructor does not parse / a type that is never coerced")
                elif o["invalid"]["err"]["e"] != "coercion" or sorted(map(str, o["invalid"]["err"]["compat"])) != compat:
                    out.append(f"{m}: rejection is not a coercion error with the declared compatible types")
            else:
                if "valid" not in o:
                    out.append(f"{m}: {ty} validator rejected a value it must accept ({exp[0]})")
                elif norm(o["valid"]) != norm(wire.canon_value(ctx, exp[1])):
                    out.append(f"{m}: payload differs from what the standard constructor returns")
                # canonical text round-trips
                if exp[0] in ("same", "parsed") and not (ty == "decimal" and exp[1].is_snan()):
                    text = exp[1].isoformat() if ty in ("date", "datetime") else str(exp[1])
                    r2 = run_alone(v, case.get("env", []), {"t": "str", "s": [ord(c) for c in text]}, m)["out"]
                    if "valid" not in r2 or (norm(r2["valid"]) != norm(wire.canon_value(ctx, exp[1]))
                                             and not (ty == "decimal" and exp[1].is_nan())):
                        out.append(f"{m}: canonical text {text!r} does not round-trip")
    if v["k"] in ("utuple", "ntuple") and v.get("coerce") == "default":
        for m in MODES:
            o = real[m]["out"]
            if "raised" in o:
                continue
            gate_rejected = "invalid" in o and o["invalid"]["vid"] == v["vid"] and o["invalid"]["err"]["e"] in ("coercion", "type")
            if x["t"] in ("tuple", "list"):
                if gate_rejected:
                    out.append(f"{m}: tuple validator rejected a {x['t']} at its gate")
            else:
                if not gate_rejected:
                    out.append(f"{m}: tuple validator let a {x['t']} past its gate")
                elif o["invalid"]["err"]["e"] != "coercion" or sorted(map(str, o["invalid"]["err"]["compat"])) != ["list", "tuple"]:
                    out.append(f"{m}: tuple gate rejection is not a coercion error naming list and tuple")
    return out


# ---------------------------------------------------------------------------------------------
# C18 composition laws (model-free): the same validator in a wrapping context / refined


def _ctx_wrappers(v: dict, x: dict, payload_hashable: bool) -> List[Tuple[str, dict, dict, Any]]:
    """(name, wrapper validator description, wrapped input, path to the inner result)"""
    K = {"t": "str", "s": [107]}
    out = [
        ("list", {"k": "list", "vid": 9001, "item": v, "preds": None, "apreds": None, "coerce": None},
         {"t": "list", "oid": 9101, "xs": [x]}, ("xs", 0)),
        ("utuple", {"k": "utuple", "vid": 9002, "item": v, "preds": None, "apreds": None, "coerce": None},
         {"t": "tuple", "oid": 9102, "xs": [x]}, ("xs", 0)),
        ("ntuple", {"k": "ntuple", "vid": 9003, "fields": [v], "oc": None, "lenPid": 9903, "coerce": None},
         {"t": "tuple", "oid": 9103, "xs": [x]}, ("xs", 0)),
        ("map", {"k": "map", "vid": 9004, "key": {"k": "always", "vid": 1}, "value": v, "preds": None, "apreds": None,
                 "coerce": None}, {"t": "dict", "oid": 9104, "kvs": [[K, x]]}, ("kvs", 0)),
        ("dictAny", {"k": "record", "vid": 9005, "kind": "dictAny", "keys": [K], "vals": [v], "reqs": [True],
                     "knrVids": [9905], "oc": None, "aoc": None, "failUnknown": False},
         {"t": "dict", "oid": 9105, "kvs": [[K, x]]}, ("kvs", 0)),
        ("record", {"k": "record", "vid": 9006, "kind": "record", "keys": [K], "vals": [v], "reqs": [True], "oc": None,
                    "aoc": None, "failUnknown": False, "into": {"id": 9906, "f": "tupleOf", "keys": [K]}},
         {"t": "dict", "oid": 9106, "kvs": [[K, x]]}, ("xs", 0)),
        ("record with an optional key", {"k": "record", "vid": 9011, "kind": "record", "keys": [K],
                    "vals": [{"k": "knr", "vid": 9911, "inner": v}], "reqs": [False], "oc": None,
                    "aoc": None, "failUnknown": False, "into": {"id": 9912, "f": "tupleOf", "keys": [K]}},
         {"t": "dict", "oid": 9111, "kvs": [[K, x]]}, ("xs_just", 0)),
        ("maybe", {"k": "maybe", "vid": 9007, "inner": v}, {"t": "just", "oid": 9107, "v": x}, ("v", None)),
        ("union1", {"k": "union", "vid": 9008, "vs": [v]}, x, None),
        ("user", {"k": "user", "vid": 9009, "inner": v}, x, None),
    ]
    if payload_hashable:
        out.append(("set", {"k": "set", "vid": 9010, "item": v, "preds": None, "apreds": None, "coerce": None},
                    {"t": "set", "oid": 9110, "xs": [x]}, ("xs", 0)))
        out.append(("map key", {"k": "map", "vid": 9012, "key": v, "value": {"k": "always", "vid": 1}, "preds": None,
                                "apreds": None, "coerce": None}, {"t": "dict", "oid": 9112, "kvs": [[x, K]]}, ("kvs_key", 0)))
    return out


def _c18_context(m: str, name: str, wv: dict, wx: dict, path: Any, env: list, base: dict) -> List[str]:
    from .genv import is_hashable_desc
    out: List[str] = []
    if name in ("set", "map key") and "valid" in base and not is_hashable_desc(base["valid"]):
        return out
    try:
        r = run_alone(wv, env, wx, m)["out"]
    except (AttributeError, TypeError):
        # the context cannot even be *built* around this value: hashing it (set member, dict key) raises - the value's
        # own doing (an instance with an unset field), before the library is called
        return out
    if "raised" in r:
        return [f"{m}: in a one-element {name} context the call raised {r['raised']}"]
    if ("valid" in base) != ("valid" in r):
        return [f"{m}: verdict depends on the context: alone {'accepts' if 'valid' in base else 'rejects'}, inside a {name} {'accepts' if 'valid' in r else 'rejects'}"]
    if "valid" in base:
        inner = r["valid"]
        if path is not None:
            f, i = path
            if f == "xs_just":
                inner = inner["xs"][i]
                if inner.get("t") != "just":
                    out.append(f"{m}: a present optional key does not deliver Just(payload) inside a {name}")
                    return out
                inner = inner["v"]
            else:
                inner = inner["kvs"][i][0] if f == "kvs_key" else inner["kvs"][i][1] if f == "kvs" else (inner["v"] if f == "v" else inner[f][i])
        if norm(inner) != norm(base["valid"]):
            out.append(f"{m}: payload inside a {name} differs from the validator's own payload")
    else:
        inv = r["invalid"]
        if name in ("union1",):
            cand = inv["children"]
        elif name == "user":
            cand = [inv]
        else:
            cand = inv["children"]
        if not any(norm(c) == norm(base["invalid"]) for c in cand):
            out.append(f"{m}: the error inside a {name} is not the validator's own error at that position")
    return out


def oracle_C18(case: dict, real: dict, model: dict) -> List[str]:
    from .genv import is_hashable_desc
    out: List[str] = []
    v, env, x = case["v"], case.get("env", []), real["xd"]
    if v["k"] == "knr":
        return out
    if v["k"] in ("union", "optional"):
        # "a union accepts iff one of its variants does": the variants are run alone (as in C05)
        out += [f for f in oracle_C05(case, real, model)]
    which = case.get("c18", 0)
    for m in MODES:
        base = real[m]["out"]
        if "raised" in base:
            continue
        hashable_in = is_hashable_desc(x)
        wrappers = _ctx_wrappers(v, x, hashable_in)
        # a leaf validator is tried in every context (cheap, and a fast path for "simple" children is the realistic
        # way to break context-freedom); a composite one in three of them, rotating
        leaf = v["k"] in ("scalar", "equals", "none", "always")
        chosen = wrappers if leaf else [wrappers[(which + j) % len(wrappers)] for j in range(3)]
        for name, wv, wx, path in chosen:
            out += _c18_context(m, name, wv, wx, path, env, base)
        # optional: accepts exactly None plus what the inner validator accepts
        ov = {"k": "optional", "vid": 9011, "noneV": {"k": "none", "vid": 3, "coerce": None}, "inner": v}
        if which % 3 == 0:
            ro = run_alone(ov, env, x, m)["out"]
            if "raised" not in ro:
                if x["t"] == "none":
                    if "valid" not in ro:
                        out.append(f"{m}: Optional rejects None")
                elif ("valid" in ro) != ("valid" in base):
                    out.append(f"{m}: Optional[{v['k']}] and the inner validator disagree on a non-None value")
                elif "valid" in ro and norm(ro["valid"]) != norm(base["valid"]):
                    out.append(f"{m}: Optional changed the inner payload")
        # refinement: an extra predicate / stricter flags only shrink, never change a payload
        ref = refine(v, which)
        if ref is not None:
            rr = run_alone(ref, env, x, m)["out"]
            if "raised" in rr:
                continue
            if "valid" in rr:
                if "valid" not in base:
                    out.append(f"{m}: refinement ({ref['_how']}) accepted a value the original rejects")
                elif norm(rr["valid"]) != norm(base["valid"]):
                    out.append(f"{m}: refinement ({ref['_how']}) changed the payload of a still-accepted value")
    return out


def refine(v: dict, which: int) -> Optional[dict]:
    """a stricter variant of the root validator"""
    v2 = copy.deepcopy(v)
    k = v2["k"]
    if k in ("scalar", "list", "set", "utuple", "map") and not v2.get("asType"):
        ty = v2["ty"] if k == "scalar" else k
        fn = {"f": "const", "b": which % 2 == 0}
        if ty in ("str", "bytes", "list", "set", "utuple", "map"):
            fn = {"f": "lenLe", "k": which % 3}
        elif ty == "int":
            fn = {"f": "intGt", "k": (which % 5) - 2}
        v2["preds"] = list(v2.get("preds") or []) + [{"k": "user", "pid": 9950, "fn": fn}]
        v2["_how"] = "extra predicate"
        return v2
    if k == "record":
        if which % 2 == 0 and not v2.get("failUnknown"):
            v2["failUnknown"] = True
            v2["_how"] = "forbid unknown keys"
            return v2
        opt = [i for i, r in enumerate(v2["reqs"]) if not r]
        if opt and v2["kind"] in ("dictAny", "typeddict"):
            i = opt[which % len(opt)]
            v2["reqs"][i] = True
            if v2["kind"] == "typeddict":
                v2["cls"] = dict(v2["cls"], id=v2["cls"]["id"] + 5000)
            v2["_how"] = "make a key required"
            return v2
    return None
