"""Translator: the `__call__` body of every built-in Predicate / Processor class in /repo's *current* source
-> a term of `Koda.PStmt` (lean/KodaModel/PyExpr.lean), written to lean/KodaModel/Generated/PredSrc.lean on every
run.  `Properties/C15Src.lean` proves each translated body equal to the model's `PredK.call` / `ProcK.call`."""
from __future__ import annotations

import ast
import os
from typing import Dict, List, Tuple

REPO = os.environ.get("KODA_REPO", "/repo")
PKG = os.path.join(REPO, "koda_validate")
OUT = os.path.join(os.path.dirname(os.path.dirname(os.path.abspath(__file__))), "lean", "KodaModel", "Generated",
                   "PredSrc.lean")

CMP = {ast.Lt: "lt", ast.LtE: "le", ast.Gt: "gt", ast.GtE: "ge", ast.Eq: "eq", ast.NotEq: "ne", ast.In: "isin",
       ast.IsNot: "isNot"}


def lstr(s: str) -> str:
    return '"' + s.replace("\\", "\\\\").replace('"', '\\"').replace("\n", "\\n") + '"'


def unsupported(node: ast.AST) -> str:
    return f"(.unsupported {lstr(ast.dump(node)[:120])})"


class Tr:
    def __init__(self, self_name: str, val_name: str):
        self.self_name = self_name
        self.val_name = val_name

    def exp(self, e: ast.expr) -> str:
        if isinstance(e, ast.Name) and e.id == self.val_name:
            return ".val"
        if isinstance(e, ast.Attribute) and isinstance(e.value, ast.Name) and e.value.id == self.self_name:
            return f"(.self {lstr(e.attr)})"
        if isinstance(e, ast.Constant):
            if e.value is None:
                return ".noneLit"
            if isinstance(e.value, int) and not isinstance(e.value, bool):
                return f"(.int ({e.value}))"
            return unsupported(e)
        if isinstance(e, ast.Compare) and len(e.ops) == 1 and type(e.ops[0]) in CMP:
            return f"(.cmp .{CMP[type(e.ops[0])]} {self.exp(e.left)} {self.exp(e.comparators[0])})"
        if isinstance(e, ast.BinOp) and isinstance(e.op, ast.Mod):
            return f"(.mod {self.exp(e.left)} {self.exp(e.right)})"
        if isinstance(e, ast.Call) and not e.keywords:
            if isinstance(e.func, ast.Name) and e.func.id == "len" and len(e.args) == 1:
                return f"(.len {self.exp(e.args[0])})"
            if isinstance(e.func, ast.Attribute):
                if len(e.args) == 0:
                    return f"(.meth0 {self.exp(e.func.value)} {lstr(e.func.attr)})"
                if len(e.args) == 1:
                    return f"(.meth1 {self.exp(e.func.value)} {lstr(e.func.attr)} {self.exp(e.args[0])})"
        return unsupported(e)

    def stmts(self, body: List[ast.stmt]) -> str:
        body = [s for s in body if not (isinstance(s, ast.Expr) and isinstance(s.value, ast.Constant))]  # docstring
        if len(body) == 1 and isinstance(body[0], ast.Return) and body[0].value is not None:
            return f"(.ret {self.exp(body[0].value)})"
        if len(body) == 1 and isinstance(body[0], ast.If) and body[0].orelse:
            s = body[0]
            return f"(.ite {self.exp(s.test)} {self.stmts(s.body)} {self.stmts(s.orelse)})"
        if len(body) == 2 and isinstance(body[0], ast.If) and not body[0].orelse:
            # `if c: return a` followed by `return b`
            s = body[0]
            return f"(.ite {self.exp(s.test)} {self.stmts(s.body)} {self.stmts(body[1:])})"
        # outside the subset: the whole body, as its AST dump, is the translation (a pin: any change to it changes
        # the generated term)
        return f"(.unsupported {lstr(' ; '.join(ast.dump(b) for b in body))})"


def base_names(c: ast.ClassDef) -> List[str]:
    out = []
    for b in c.bases:
        if isinstance(b, ast.Subscript):
            b = b.value
        if isinstance(b, ast.Name):
            out.append(b.id)
        elif isinstance(b, ast.Attribute):
            out.append(b.attr)
    return out


def collect() -> List[Tuple[str, str, str, List[str]]]:
    """[(class name, 'Predicate' | 'Processor', PStmt term, dataclass field names)] in a stable order"""
    found = []
    for fn in sorted(os.listdir(PKG)):
        if not fn.endswith(".py"):
            continue
        tree = ast.parse(open(os.path.join(PKG, fn)).read())
        for node in tree.body:
            if not isinstance(node, ast.ClassDef):
                continue
            bases = base_names(node)
            kind = "Predicate" if "Predicate" in bases else "Processor" if "Processor" in bases else None
            if kind is None:
                continue
            call = None
            fields = []
            for item in node.body:
                if isinstance(item, ast.FunctionDef) and item.name == "__call__":
                    call = item
                if isinstance(item, ast.AnnAssign) and isinstance(item.target, ast.Name):
                    ann = ast.unparse(item.annotation)
                    if not ann.startswith("ClassVar"):
                        fields.append(item.target.id)
            if call is None:
                term = '(.unsupported "no synchronous __call__")'
            else:
                args = [a.arg for a in call.args.args]
                if len(args) != 2 or call.args.vararg or call.args.kwarg or call.args.kwonlyargs or call.decorator_list:
                    term = '(.unsupported "signature of __call__")'
                else:
                    term = Tr(args[0], args[1]).stmts(call.body)
            found.append((node.name, kind, term, fields))
    found.sort()
    return found


def email_pattern() -> str:
    tree = ast.parse(open(os.path.join(PKG, "string.py")).read())
    for node in tree.body:
        if isinstance(node, ast.ClassDef) and node.name == "EmailPredicate":
            for item in node.body:
                if isinstance(item, ast.AnnAssign) and isinstance(item.target, ast.Name) and item.target.id == "pattern":
                    v = item.value
                    if (isinstance(v, ast.Call) and ast.unparse(v.func) == "re.compile" and len(v.args) == 1
                            and not v.keywords and isinstance(v.args[0], ast.Constant) and isinstance(v.args[0].value, str)):
                        return v.args[0].value
                    return "<not a plain re.compile(literal)>: " + ast.unparse(v) if v is not None else "<no default>"
    return "<class EmailPredicate not found>"


# ---------------------------------------------------------------------------------------------
# default coercers (functions decorated with `@coercer(...)`) -> Koda.CStmt (lean/KodaModel/PyCoerce.lean)

OUT_COERCE = os.path.join(os.path.dirname(OUT), "CoerceSrc.lean")
TYNAMES = {"str": ".str", "int": ".int", "float": ".float", "bool": ".bool", "bytes": ".bytes", "Decimal": ".decimal",
           "UUID": ".uuid", "date": ".date", "datetime": ".datetime", "list": ".list", "tuple": ".tuple", "set": ".set",
           "dict": ".dict"}


class CTr:
    """translator of one coercer body; `val` is the parameter, aliases are names bound to `type(val)`"""

    def __init__(self, val_name: str):
        self.val = val_name
        self.type_aliases: set = set()

    def is_val(self, e: ast.expr) -> bool:
        return isinstance(e, ast.Name) and e.id == self.val

    def is_type_of_val(self, e: ast.expr) -> bool:
        if isinstance(e, ast.NamedExpr) and isinstance(e.target, ast.Name) and self.is_type_of_val(e.value):
            self.type_aliases.add(e.target.id)
            return True
        if isinstance(e, ast.Name) and e.id in self.type_aliases:
            return True
        return (isinstance(e, ast.Call) and isinstance(e.func, ast.Name) and e.func.id == "type" and len(e.args) == 1
                and not e.keywords and self.is_val(e.args[0]))

    def ty(self, e: ast.expr) -> str:
        n = ast.unparse(e)
        return TYNAMES.get(n, "")

    def test(self, e: ast.expr) -> str:
        if isinstance(e, ast.Compare) and len(e.ops) == 1 and isinstance(e.ops[0], ast.Is) and self.is_type_of_val(e.left):
            t = self.ty(e.comparators[0])
            if t:
                return f"(.typeIs {t})"
        if (isinstance(e, ast.Call) and isinstance(e.func, ast.Name) and e.func.id == "isinstance" and len(e.args) == 2
                and not e.keywords and self.is_val(e.args[0])):
            ts = e.args[1].elts if isinstance(e.args[1], ast.Tuple) else [e.args[1]]
            tys = [self.ty(t) for t in ts]
            if all(tys):
                return f"(.isInst [{', '.join(tys)}])"
        return ""

    def just_of(self, e: ast.expr):
        """`Just(<inner>)` -> inner expression"""
        if isinstance(e, ast.Call) and isinstance(e.func, ast.Name) and e.func.id == "Just" and len(e.args) == 1 and not e.keywords:
            return e.args[0]
        return None

    def stmt(self, s: ast.stmt) -> str:
        if isinstance(s, ast.Pass):
            return ".pass"
        if isinstance(s, ast.Return) and s.value is not None:
            if isinstance(s.value, ast.Name) and s.value.id == "nothing":
                return ".retNothing"
            inner = self.just_of(s.value)
            if inner is not None:
                if self.is_val(inner):
                    return ".retJustVal"
                if (isinstance(inner, ast.Call) and isinstance(inner.func, ast.Name) and inner.func.id == "tuple"
                        and len(inner.args) == 1 and self.is_val(inner.args[0]) and not inner.keywords):
                    return ".retJustTupleOfVal"
        if isinstance(s, ast.If):
            c = self.test(s.test)
            if c:
                return f"(.ite {c} {self.block(s.body)} {self.block(s.orelse)})"
        if (isinstance(s, ast.Try) and len(s.body) == 1 and isinstance(s.body[0], ast.Return) and s.body[0].value is not None
                and len(s.handlers) == 1 and not s.orelse and not s.finalbody):
            inner = self.just_of(s.body[0].value)
            h = s.handlers[0]
            if (inner is not None and isinstance(inner, ast.Call) and len(inner.args) == 1 and self.is_val(inner.args[0])
                    and not inner.keywords and h.type is not None and h.name is None):
                ctor = ast.unparse(inner.func)
                excs = h.type.elts if isinstance(h.type, ast.Tuple) else [h.type]
                names = [ast.unparse(x).split(".")[-1] for x in excs]
                return f"(.tryRetJust {lstr(ctor)} [{', '.join(lstr(n) for n in names)}] {self.block(h.body)})"
        return f"(.unsupported {lstr(ast.dump(s)[:200])})"

    def block(self, body: List[ast.stmt]) -> str:
        body = [s for s in body if not (isinstance(s, ast.Expr) and isinstance(s.value, ast.Constant))]
        if not body:
            return ".pass"
        out = self.stmt(body[-1])
        for s in reversed(body[:-1]):
            out = f"(.seq {self.stmt(s)} {out})"
        return out


def collect_coercers() -> List[Tuple[str, List[str], str]]:
    found = []
    for fn in sorted(os.listdir(PKG)):
        if not fn.endswith(".py"):
            continue
        tree = ast.parse(open(os.path.join(PKG, fn)).read())
        for node in tree.body:
            if not isinstance(node, ast.FunctionDef):
                continue
            decs = [d for d in node.decorator_list if isinstance(d, ast.Call) and ast.unparse(d.func) == "coercer"]
            if not decs:
                continue
            compat = [TYNAMES.get(ast.unparse(a), f"(.cls ⟨0, 0, false, false⟩) /- {ast.unparse(a)} -/") for a in decs[0].args]
            args = [a.arg for a in node.args.args]
            if len(args) != 1:
                term = '(.unsupported "signature")'
            else:
                term = CTr(args[0]).block(node.body)
            found.append((node.name, compat, term))
    found.sort()
    return found


def render_coerce() -> str:
    found = collect_coercers()
    lines = ["/- GENERATED by harness/pysrc.py from the current source of /repo/koda_validate — do not edit -/",
             "import KodaModel.PyCoerce", "", "namespace Koda.Src", "",
             "/-- every function decorated with `@coercer(<compatible types>)`: its compatible types and its body, translated -/",
             "def coercers : List (String × List Ty × CStmt) := ["]
    lines.append(",\n".join(f"  ({lstr(n)}, [{', '.join(c)}], {t})" for n, c, t in found))
    lines += ["]", "", "end Koda.Src", ""]
    return "\n".join(lines)


# ---------------------------------------------------------------------------------------------
# the scalar pipeline (koda_validate/_internal.py) -> Koda.IStmt (lean/KodaModel/PyImp.lean)

OUT_SCALAR = os.path.join(os.path.dirname(OUT), "ScalarSrc.lean")
IVARS = {"val", "result", "errors", "proc", "pred"}
IATTRS = {"coerce": "coerce", "_TYPE": "TYPE", "_type_err": "typeErr", "preprocessors": "preprocessors",
          "predicates": "predicates", "predicates_async": "predicatesAsync", "_disallow_synchronous": "disallowSync",
          "__class__": "cls", "is_just": "isJust", "val": "valA", "compatible_types": "compatibleTypes",
          "validate_async": "validateAsync", "extend": "extend"}
IGLOBALS = {"type": "type", "Invalid": "Invalid", "CoercionErr": "CoercionErr", "PredicateErrs": "PredicateErrs",
            "_async_predicates_warning": "asyncPredicatesWarning", "instance": "instance_", "type_": "type_",
            "type_err": "typeErr_"}


class ITr:
    def exp(self, e: ast.expr) -> str:
        if isinstance(e, ast.Name):
            if e.id == "self":
                return ".self"
            if e.id in IVARS:
                return f"(.var .{e.id})"
            if e.id in IGLOBALS:
                return f"(.glob .{IGLOBALS[e.id]})"
            return f"(.glob (.other {lstr(e.id)}))"
        if isinstance(e, ast.Constant) and isinstance(e.value, bool):
            return f"(.bool {'true' if e.value else 'false'})"
        if isinstance(e, ast.Attribute):
            a = f".{IATTRS[e.attr]}" if e.attr in IATTRS else f"(.other {lstr(e.attr)})"
            return f"(.attr {self.exp(e.value)} {a})"
        if isinstance(e, ast.Call) and not e.keywords and 1 <= len(e.args) <= 3 and not any(isinstance(a, ast.Starred) for a in e.args):
            return f"(.call{len(e.args)} {self.exp(e.func)} {' '.join(self.exp(a) for a in e.args)})"
        if isinstance(e, ast.UnaryOp) and isinstance(e.op, ast.Not):
            return f"(.not {self.exp(e.operand)})"
        if isinstance(e, ast.Compare) and len(e.ops) == 1 and isinstance(e.ops[0], (ast.Is, ast.IsNot)):
            op = ".is_" if isinstance(e.ops[0], ast.Is) else ".isNot"
            return f"({op} {self.exp(e.left)} {self.exp(e.comparators[0])})"
        if isinstance(e, ast.Tuple) and len(e.elts) == 2:
            return f"(.pair {self.exp(e.elts[0])} {self.exp(e.elts[1])})"
        if (isinstance(e, ast.ListComp) and len(e.generators) == 1 and not e.generators[0].is_async
                and len(e.generators[0].ifs) == 1 and isinstance(e.generators[0].target, ast.Name)
                and e.generators[0].target.id in IVARS):
            g = e.generators[0]
            return f"(.listComp {self.exp(e.elt)} .{g.target.id} {self.exp(g.iter)} {self.exp(g.ifs[0])})"
        if isinstance(e, ast.Await):
            return f"(.await {self.exp(e.value)})"
        return f"(.unsupported {lstr(ast.dump(e)[:160])})"

    def stmt(self, s: ast.stmt) -> str:
        if isinstance(s, ast.Assign) and len(s.targets) == 1 and isinstance(s.targets[0], ast.Name) and s.targets[0].id in IVARS:
            return f"(.assign .{s.targets[0].id} {self.exp(s.value)})"
        if isinstance(s, ast.AnnAssign) and isinstance(s.target, ast.Name) and s.target.id in IVARS and s.value is not None:
            return f"(.assign .{s.target.id} {self.exp(s.value)})"
        if isinstance(s, ast.If):
            return f"(.ite {self.exp(s.test)} {self.block(s.body)} {self.block(s.orelse)})"
        if isinstance(s, ast.For) and isinstance(s.target, ast.Name) and s.target.id in IVARS and not s.orelse:
            return f"(.forIn .{s.target.id} {self.exp(s.iter)} {self.block(s.body)})"
        if isinstance(s, ast.Return) and s.value is not None:
            return f"(.ret {self.exp(s.value)})"
        if isinstance(s, ast.Expr):
            return f"(.expr {self.exp(s.value)})"
        return f"(.unsupported {lstr(ast.dump(s)[:160])})"

    def block(self, body: List[ast.stmt]) -> str:
        body = [s for s in body if not (isinstance(s, ast.Expr) and isinstance(s.value, ast.Constant))]
        return "[" + ", ".join(self.stmt(s) for s in body) + "]"


def render_scalar() -> str:
    tree = ast.parse(open(os.path.join(PKG, "_internal.py")).read())
    bodies: Dict[str, str] = {"scalarSync": '[.unsupported "not found"]', "scalarAsync": '[.unsupported "not found"]',
                              "simpleInner": '[.unsupported "not found"]'}
    pins: Dict[str, str] = {"disallowInit": "<not found>", "fastPathCond": "<not found>", "fastPathAssign": "<not found>",
                            "simpleInnerParams": "<not found>"}
    for node in tree.body:
        if isinstance(node, ast.ClassDef) and node.name == "_ToTupleStandardValidator":
            for item in node.body:
                if isinstance(item, ast.FunctionDef) and item.name == "_validate_to_tuple":
                    bodies["scalarSync"] = ITr().block(item.body) if [a.arg for a in item.args.args] == ["self", "val"] else '[.unsupported "signature"]'
                if isinstance(item, ast.AsyncFunctionDef) and item.name == "_validate_to_tuple_async":
                    bodies["scalarAsync"] = ITr().block(item.body) if [a.arg for a in item.args.args] == ["self", "val"] else '[.unsupported "signature"]'
                if isinstance(item, ast.FunctionDef) and item.name == "__init__":
                    for st in ast.walk(item):
                        if (isinstance(st, ast.Assign) and len(st.targets) == 1 and ast.unparse(st.targets[0]) == "self._disallow_synchronous"):
                            pins["disallowInit"] = ast.unparse(st.value)
                        if isinstance(st, ast.If) and any("_simple_type_validator" in ast.unparse(b) for b in st.body):
                            pins["fastPathCond"] = ast.unparse(st.test)
                            pins["fastPathAssign"] = " ; ".join(ast.unparse(b) for b in st.body)
        if isinstance(node, ast.FunctionDef) and node.name == "_simple_type_validator":
            inner = [x for x in node.body if isinstance(x, ast.FunctionDef)]
            if len(inner) == 1 and [a.arg for a in inner[0].args.args] == ["val"]:
                bodies["simpleInner"] = ITr().block(inner[0].body)
                pins["simpleInnerParams"] = ", ".join(a.arg for a in node.args.args) + " -> " + " ; ".join(
                    ast.unparse(x) for x in node.body if not isinstance(x, ast.FunctionDef))
    lines = ["/- GENERATED by harness/pysrc.py from the current source of /repo/koda_validate/_internal.py — do not edit -/",
             "import KodaModel.PyImp", "", "namespace Koda.Src", ""]
    for k, v in bodies.items():
        lines += [f"def {k} : List IStmt :=", f"  {v}", ""]
    for k, v in pins.items():
        lines += [f"def {k} : String := {lstr(v)}", ""]
    lines += ["end Koda.Src", ""]
    return "\n".join(lines)


# ---------------------------------------------------------------------------------------------
# the union loop (koda_validate/_internal.py) -> Koda.UStmt (lean/KodaModel/PyUnion.lean)

OUT_UNION = os.path.join(os.path.dirname(OUT), "UnionSrc.lean")
UVARS = {"errs": "errs", "validator": "validator", "result_tup": "resultTup", "result": "result"}
UPARAMS = {"val": "val", "source_validator": "sourceValidator", "validators": "validators"}
UMETHS = {"_validate_to_tuple": "validateToTuple", "_validate_to_tuple_async": "validateToTupleAsync",
          "validate_async": "validateAsync"}
UATTRS = {"is_valid": "isValid", "val": "valA"}


class UTr:
    def exp(self, e: ast.expr) -> str:
        if isinstance(e, ast.Name):
            if e.id in UVARS:
                return f"(.var .{UVARS[e.id]})"
            if e.id in UPARAMS:
                return f"(.param .{UPARAMS[e.id]})"
        if isinstance(e, ast.List) and not e.elts:
            return ".emptyList"
        if isinstance(e, ast.Constant) and isinstance(e.value, bool):
            return f"(.bool {'true' if e.value else 'false'})"
        if isinstance(e, ast.Await):
            return f"(.await {self.exp(e.value)})"
        if isinstance(e, ast.Tuple) and len(e.elts) == 2:
            return f"(.pair {self.exp(e.elts[0])} {self.exp(e.elts[1])})"
        if (isinstance(e, ast.Subscript) and isinstance(e.slice, ast.Constant) and isinstance(e.slice.value, int)
                and not isinstance(e.slice.value, bool) and e.slice.value >= 0):
            return f"(.subscript {self.exp(e.value)} {e.slice.value})"
        if isinstance(e, ast.Attribute):
            a = f".{UATTRS[e.attr]}" if e.attr in UATTRS else f"(.other {lstr(e.attr)})"
            return f"(.attr {self.exp(e.value)} {a})"
        if isinstance(e, ast.Call) and not e.keywords:
            f, args = e.func, e.args
            if isinstance(f, ast.Name) and f.id == "isinstance" and len(args) == 2 and ast.unparse(args[1]) == "_ToTupleValidator":
                return f"(.isToTuple {self.exp(args[0])})"
            if (isinstance(f, ast.Name) and f.id == "Invalid" and len(args) == 3 and isinstance(args[0], ast.Call)
                    and ast.unparse(args[0].func) == "UnionErrs" and len(args[0].args) == 1 and not args[0].keywords):
                return f"(.mkUnionInvalid {self.exp(args[0].args[0])} {self.exp(args[1])} {self.exp(args[2])})"
            if isinstance(f, ast.Attribute) and len(args) == 1:
                m = f".{UMETHS[f.attr]}" if f.attr in UMETHS else f"(.other {lstr(f.attr)})"
                return f"(.meth {self.exp(f.value)} {m} {self.exp(args[0])})"
            if isinstance(f, ast.Name) and f.id in UVARS and len(args) == 1:
                return f"(.meth {self.exp(f)} .call {self.exp(args[0])})"
        return f"(.unsupported {lstr(ast.dump(e)[:160])})"

    def stmt(self, s: ast.stmt) -> str:
        if isinstance(s, ast.Assign) and len(s.targets) == 1 and isinstance(s.targets[0], ast.Name) and s.targets[0].id in UVARS:
            return f"(.assign .{UVARS[s.targets[0].id]} {self.exp(s.value)})"
        if isinstance(s, ast.If):
            return f"(.ite {self.exp(s.test)} {self.block(s.body)} {self.block(s.orelse)})"
        if isinstance(s, ast.For) and isinstance(s.target, ast.Name) and s.target.id in UVARS and not s.orelse:
            return f"(.forIn .{UVARS[s.target.id]} {self.exp(s.iter)} {self.block(s.body)})"
        if isinstance(s, ast.Return) and s.value is not None:
            return f"(.ret {self.exp(s.value)})"
        if (isinstance(s, ast.Expr) and isinstance(s.value, ast.Call) and isinstance(s.value.func, ast.Attribute)
                and s.value.func.attr == "append" and isinstance(s.value.func.value, ast.Name)
                and s.value.func.value.id in UVARS and len(s.value.args) == 1 and not s.value.keywords):
            return f"(.append .{UVARS[s.value.func.value.id]} {self.exp(s.value.args[0])})"
        return f"(.unsupported {lstr(ast.dump(s)[:160])})"

    def block(self, body: List[ast.stmt]) -> str:
        body = [s for s in body if not (isinstance(s, ast.Expr) and isinstance(s.value, ast.Constant))]
        return "[" + ", ".join(self.stmt(s) for s in body) + "]"


def render_union() -> str:
    tree = ast.parse(open(os.path.join(PKG, "_internal.py")).read())
    bodies = {"unionSync": '[.unsupported "not found"]', "unionAsync": '[.unsupported "not found"]'}
    for node in tree.body:
        if isinstance(node, (ast.FunctionDef, ast.AsyncFunctionDef)) and node.name in ("_union_validator", "_union_validator_async"):
            ok = [a.arg for a in node.args.args] == ["source_validator", "validators", "val"]
            key = "unionSync" if node.name == "_union_validator" else "unionAsync"
            if isinstance(node, ast.AsyncFunctionDef) != (key == "unionAsync"):
                ok = False
            bodies[key] = UTr().block(node.body) if ok else '[.unsupported "signature"]'
    # how UnionValidator / OptionalValidator reach the loop (pinned text)
    uses = []
    for fn in ("union.py", "none.py"):
        t = ast.parse(open(os.path.join(PKG, fn)).read())
        for c in t.body:
            if isinstance(c, ast.ClassDef) and c.name in ("UnionValidator", "OptionalValidator"):
                for item in c.body:
                    if isinstance(item, (ast.FunctionDef, ast.AsyncFunctionDef)) and item.name in ("_validate_to_tuple", "_validate_to_tuple_async"):
                        uses.append(f"{c.name}.{item.name}: " + " ; ".join(ast.unparse(b) for b in item.body))
    lines = ["/- GENERATED by harness/pysrc.py from the current source of /repo/koda_validate/_internal.py — do not edit -/",
             "import KodaModel.PyUnion", "", "namespace Koda.Src", ""]
    for k, v in bodies.items():
        lines += [f"def {k} : List UStmt :=", f"  {v}", ""]
    lines += ["/-- how UnionValidator / OptionalValidator call the loop -/",
              "def unionUses : List String := [" + ", ".join(lstr(u) for u in sorted(uses)) + "]", "", "end Koda.Src", ""]
    return "\n".join(lines)


# ---------------------------------------------------------------------------------------------
# ListValidator (koda_validate/list.py) -> Koda.LStmt (lean/KodaModel/PyList.lean)

OUT_LIST = os.path.join(os.path.dirname(OUT), "ListSrc.lean")
LVARS = {"coerced": "coerced", "coerced_val": "coercedVal", "list_errors": "listErrors", "return_list": "returnList",
         "index_errs": "indexErrs", "i": "i", "item": "item", "is_valid": "isValid", "item_result": "itemResult",
         "predicate_errors": "predicateErrors", "pred": "pred", "pred_async": "predAsync"}
LSELF = {"coerce": "coerce", "predicates": "predicates", "predicates_async": "predicatesAsync",
         "_disallow_synchronous": "disallowSync", "__class__": "cls", "_wrapped_item_validator_sync": "wrappedSync",
         "_wrapped_item_validator_async": "wrappedAsync"}
LATTRS = {"is_just": "isJust", "val": "valA", "compatible_types": "compatibleTypes"}
LMETHS = {"__call__": "call", "validate_async": "validateAsync"}
LCTORS = {"CoercionErr": ("mkCoercionErr", 2), "TypeErr": ("mkTypeErr", 1), "PredicateErrs": ("mkPredErrs", 1),
          "IndexErrs": ("mkIndexErrs", 1), "Invalid": ("mkInvalid", 3), "_async_predicates_warning": ("warn", 1),
          "enumerate": ("enumerate", 1)}


class LTr:
    def exp(self, e: ast.expr) -> str:
        if isinstance(e, ast.Name):
            if e.id == "self":
                return ".self"
            if e.id == "val":
                return ".val"
            if e.id == "list":
                return ".listTy"
            if e.id in LVARS:
                return f"(.var .{LVARS[e.id]})"
        if isinstance(e, ast.Constant) and isinstance(e.value, bool):
            return f"(.bool {'true' if e.value else 'false'})"
        if isinstance(e, ast.List) and not e.elts:
            return ".emptyList"
        if isinstance(e, ast.Dict) and not e.keys:
            return ".emptyDict"
        if isinstance(e, ast.Await):
            return f"(.await {self.exp(e.value)})"
        if isinstance(e, ast.Tuple) and len(e.elts) == 2:
            return f"(.pair {self.exp(e.elts[0])} {self.exp(e.elts[1])})"
        if isinstance(e, ast.NamedExpr) and isinstance(e.target, ast.Name) and e.target.id in LVARS:
            return f"(.walrus .{LVARS[e.target.id]} {self.exp(e.value)})"
        if isinstance(e, ast.UnaryOp) and isinstance(e.op, ast.Not):
            return f"(.not {self.exp(e.operand)})"
        if isinstance(e, ast.Compare) and len(e.ops) == 1:
            l, r = e.left, e.comparators[0]
            if (isinstance(e.ops[0], ast.Is) and isinstance(l, ast.Call) and isinstance(l.func, ast.Name) and l.func.id == "type"
                    and len(l.args) == 1 and not l.keywords and isinstance(r, ast.Name) and r.id == "list"):
                return f"(.typeIsList {self.exp(l.args[0])})"
            if isinstance(e.ops[0], ast.IsNot) and isinstance(r, ast.Constant) and r.value is None:
                return f"(.isNotNone {self.exp(l)})"
        if isinstance(e, ast.Attribute):
            if isinstance(e.value, ast.Name) and e.value.id == "self":
                a = f".{LSELF[e.attr]}" if e.attr in LSELF else f"(.other {lstr(e.attr)})"
                return f"(.selfAttr {a})"
            a = f".{LATTRS[e.attr]}" if e.attr in LATTRS else f"(.other {lstr(e.attr)})"
            return f"(.attr {self.exp(e.value)} {a})"
        if (isinstance(e, ast.ListComp) and len(e.generators) == 1 and not e.generators[0].is_async
                and len(e.generators[0].ifs) == 1 and isinstance(e.generators[0].target, ast.Name)
                and e.generators[0].target.id in LVARS):
            g = e.generators[0]
            return f"(.listComp {self.exp(e.elt)} .{LVARS[g.target.id]} {self.exp(g.iter)} {self.exp(g.ifs[0])})"
        if isinstance(e, ast.Call) and not e.keywords and not any(isinstance(a, ast.Starred) for a in e.args):
            f, args = e.func, e.args
            if isinstance(f, ast.Name) and f.id in LCTORS and len(args) == LCTORS[f.id][1]:
                return f"(.{LCTORS[f.id][0]} {' '.join(self.exp(a) for a in args)})"
            if (isinstance(f, ast.Attribute) and f.attr in LMETHS and isinstance(f.value, ast.Name) and f.value.id in LVARS
                    and len(args) == 1):
                return f"(.meth {self.exp(f.value)} .{LMETHS[f.attr]} {self.exp(args[0])})"
            if len(args) == 1 and not (isinstance(f, ast.Name) and f.id not in LVARS):
                return f"(.call1 {self.exp(f)} {self.exp(args[0])})"
        return f"(.unsupported {lstr(ast.dump(e)[:160])})"

    def stmt(self, s: ast.stmt) -> str:
        if isinstance(s, ast.Assign) and len(s.targets) == 1:
            t = s.targets[0]
            if isinstance(t, ast.Name) and t.id in LVARS:
                return f"(.assign .{LVARS[t.id]} {self.exp(s.value)})"
            if (isinstance(t, ast.Tuple) and len(t.elts) == 2 and all(isinstance(x, ast.Name) and x.id in LVARS for x in t.elts)):
                return f"(.assign2 .{LVARS[t.elts[0].id]} .{LVARS[t.elts[1].id]} {self.exp(s.value)})"
            if isinstance(t, ast.Subscript) and isinstance(t.value, ast.Name) and t.value.id in LVARS:
                return f"(.setItem .{LVARS[t.value.id]} {self.exp(t.slice)} {self.exp(s.value)})"
        if isinstance(s, ast.AnnAssign) and isinstance(s.target, ast.Name) and s.target.id in LVARS and s.value is not None:
            return f"(.assign .{LVARS[s.target.id]} {self.exp(s.value)})"
        if isinstance(s, ast.If):
            return f"(.ite {self.exp(s.test)} {self.block(s.body)} {self.block(s.orelse)})"
        if isinstance(s, ast.For) and not s.orelse:
            t = s.target
            if isinstance(t, ast.Name) and t.id in LVARS:
                return f"(.forIn .{LVARS[t.id]} {self.exp(s.iter)} {self.block(s.body)})"
            if isinstance(t, ast.Tuple) and len(t.elts) == 2 and all(isinstance(x, ast.Name) and x.id in LVARS for x in t.elts):
                return f"(.forIn2 .{LVARS[t.elts[0].id]} .{LVARS[t.elts[1].id]} {self.exp(s.iter)} {self.block(s.body)})"
        if isinstance(s, ast.Return) and s.value is not None:
            return f"(.ret {self.exp(s.value)})"
        if isinstance(s, ast.Expr) and isinstance(s.value, ast.Call):
            c = s.value
            if (isinstance(c.func, ast.Attribute) and c.func.attr in ("append", "extend") and isinstance(c.func.value, ast.Name)
                    and c.func.value.id in LVARS and len(c.args) == 1 and not c.keywords):
                return f"(.{c.func.attr} .{LVARS[c.func.value.id]} {self.exp(c.args[0])})"
            return f"(.expr {self.exp(c)})"
        return f"(.unsupported {lstr(ast.dump(s)[:160])})"

    def block(self, body: List[ast.stmt]) -> str:
        body = [s for s in body if not (isinstance(s, ast.Expr) and isinstance(s.value, ast.Constant))]
        return "[" + ", ".join(self.stmt(s) for s in body) + "]"


def render_list() -> str:
    tree = ast.parse(open(os.path.join(PKG, "list.py")).read())
    bodies = {"listSync": '[.unsupported "not found"]', "listAsync": '[.unsupported "not found"]'}
    init = "<not found>"
    for node in tree.body:
        if isinstance(node, ast.ClassDef) and node.name == "ListValidator":
            for item in node.body:
                if isinstance(item, ast.FunctionDef) and item.name == "_validate_to_tuple":
                    bodies["listSync"] = LTr().block(item.body) if [a.arg for a in item.args.args] == ["self", "val"] else '[.unsupported "signature"]'
                if isinstance(item, ast.AsyncFunctionDef) and item.name == "_validate_to_tuple_async":
                    bodies["listAsync"] = LTr().block(item.body) if [a.arg for a in item.args.args] == ["self", "val"] else '[.unsupported "signature"]'
                if isinstance(item, ast.FunctionDef) and item.name == "__init__":
                    init = " ; ".join(ast.unparse(b) for b in item.body if not (isinstance(b, ast.Expr) and isinstance(b.value, ast.Constant)))
    # the two wrappers of the item validator (`_internal.py`), pinned text
    itree = ast.parse(open(os.path.join(PKG, "_internal.py")).read())
    wraps = []
    for node in itree.body:
        if isinstance(node, ast.FunctionDef) and node.name in ("_wrap_sync_validator", "_wrap_async_validator"):
            wraps.append(node.name + ": " + " ; ".join(ast.unparse(b).replace("\n", " ") for b in node.body))
    lines = ["/- GENERATED by harness/pysrc.py from the current source of /repo/koda_validate/list.py — do not edit -/",
             "import KodaModel.PyList", "", "namespace Koda.Src", ""]
    for k, v in bodies.items():
        lines += [f"def {k} : List LStmt :=", f"  {v}", ""]
    lines += ["/-- `ListValidator.__init__` -/", f"def listInit : String := {lstr(init)}", "",
              "/-- `_wrap_sync_validator` / `_wrap_async_validator` -/",
              "def listWraps : List String := [" + ", ".join(lstr(w) for w in sorted(wraps)) + "]", "", "end Koda.Src", ""]
    return "\n".join(lines)


# ---------------------------------------------------------------------------------------------
# the small validators -> Koda.WStmt (lean/KodaModel/PyWrap.lean)

OUT_WRAP = os.path.join(os.path.dirname(OUT), "WrapSrc.lean")
WSELF = {"validator": "validator", "_validator_sync": "validatorSync", "_validator_async": "validatorAsync", "coerce": "coerce"}
WATTRS = {"val": "valA", "is_valid": "isValid", "is_just": "isJust", "compatible_types": "compatibleTypes",
          "validate_async": "validateAsync"}


class WTr:
    def __init__(self, param: str):
        self.param = param

    def exp(self, e: ast.expr) -> str:
        if isinstance(e, ast.Name):
            if e.id == self.param:
                return ".val"
            if e.id == "self":
                return ".self"
            if e.id == "result":
                return "(.var .result)"
            if e.id == "nothing":
                return ".nothing"
            if e.id == "dict":
                return ".dictTy"
        if isinstance(e, ast.Constant):
            if e.value is None:
                return ".noneLit"
            if isinstance(e.value, bool):
                return f"(.bool {'true' if e.value else 'false'})"
        if isinstance(e, ast.Await):
            return f"(.await {self.exp(e.value)})"
        if isinstance(e, ast.Tuple) and len(e.elts) == 2:
            return f"(.pair {self.exp(e.elts[0])} {self.exp(e.elts[1])})"
        if (isinstance(e, ast.Subscript) and isinstance(e.slice, ast.Constant) and isinstance(e.slice.value, int)
                and not isinstance(e.slice.value, bool) and e.slice.value >= 0):
            return f"(.subscript {self.exp(e.value)} {e.slice.value})"
        if isinstance(e, ast.Subscript) and ast.unparse(e) == "Maybe[Any]":
            return ".maybeAnyTy"
        if isinstance(e, ast.Compare) and len(e.ops) == 1 and isinstance(e.ops[0], ast.Is):
            l, r = e.left, e.comparators[0]
            if (isinstance(l, ast.Call) and isinstance(l.func, ast.Name) and l.func.id == "type" and len(l.args) == 1
                    and not l.keywords and isinstance(r, ast.Name) and r.id == "Just"):
                return f"(.typeIsJust {self.exp(l.args[0])})"
            return f"(.is_ {self.exp(l)} {self.exp(r)})"
        if isinstance(e, ast.Attribute):
            if isinstance(e.value, ast.Name) and e.value.id == "self":
                a = f".{WSELF[e.attr]}" if e.attr in WSELF else f"(.other {lstr(e.attr)})"
                return f"(.selfAttr {a})"
            a = f".{WATTRS[e.attr]}" if e.attr in WATTRS else f"(.other {lstr(e.attr)})"
            return f"(.attr {self.exp(e.value)} {a})"
        if isinstance(e, ast.Call) and not e.keywords and not any(isinstance(a, ast.Starred) for a in e.args):
            f, args = e.func, e.args
            if isinstance(f, ast.Name):
                if f.id == "type" and len(args) == 1 and isinstance(args[0], ast.Constant) and args[0].value is None:
                    return ".noneTy"
                if f.id == "isinstance" and len(args) == 2 and isinstance(args[1], ast.Name) and args[1].id == "dict":
                    return f"(.isInstDict {self.exp(args[0])})"
                table = {"Just": ("justOf", 1), "Valid": ("validOf", 1), "TypeErr": ("mkTypeErr", 1),
                         "ContainerErr": ("mkContainerErr", 1), "CoercionErr": ("mkCoercionErr", 2), "Invalid": ("mkInvalid", 3)}
                if f.id in table and len(args) == table[f.id][1]:
                    return f"(.{table[f.id][0]} {' '.join(self.exp(a) for a in args)})"
                return f"(.unsupported {lstr(ast.dump(e)[:160])})"
            if len(args) == 0:
                return f"(.call0 {self.exp(f)})"
            if len(args) == 1:
                return f"(.call1 {self.exp(f)} {self.exp(args[0])})"
        return f"(.unsupported {lstr(ast.dump(e)[:160])})"

    def stmt(self, s: ast.stmt) -> str:
        if isinstance(s, ast.Assign) and len(s.targets) == 1 and isinstance(s.targets[0], ast.Name) and s.targets[0].id == "result":
            return f"(.assign .result {self.exp(s.value)})"
        if isinstance(s, ast.If):
            return f"(.ite {self.exp(s.test)} {self.block(s.body)} {self.block(s.orelse)})"
        if isinstance(s, ast.Return) and s.value is not None:
            return f"(.ret {self.exp(s.value)})"
        return f"(.unsupported {lstr(ast.dump(s)[:160])})"

    def block(self, body: List[ast.stmt]) -> str:
        body = [s for s in body if not (isinstance(s, ast.Expr) and isinstance(s.value, ast.Constant))]
        return "[" + ", ".join(self.stmt(s) for s in body) + "]"


WRAP_TARGETS = [("maybe.py", "MaybeValidator", "_validate_to_tuple", "maybeSync"),
                ("maybe.py", "MaybeValidator", "_validate_to_tuple_async", "maybeAsync"),
                ("dictionary.py", "KeyNotRequired", "__call__", "knrSync"),
                ("dictionary.py", "KeyNotRequired", "validate_async", "knrAsync"),
                ("generic.py", "Lazy", "__call__", "lazySync"),
                ("generic.py", "Lazy", "validate_async", "lazyAsync"),
                ("generic.py", "AlwaysValid", "_validate_to_tuple", "alwaysSync"),
                ("generic.py", "AlwaysValid", "_validate_to_tuple_async", "alwaysAsync"),
                ("none.py", "NoneValidator", "_validate_to_tuple", "noneSync"),
                ("dictionary.py", "IsDictValidator", "_validate_to_tuple", "isDictSync")]
WRAP_PINS = [("none.py", "NoneValidator", "_validate_to_tuple_async"), ("dictionary.py", "IsDictValidator", "_validate_to_tuple_async"),
             ("maybe.py", "MaybeValidator", "__init__")]


def _find_method(fn: str, cls: str, meth: str):
    tree = ast.parse(open(os.path.join(PKG, fn)).read())
    for node in tree.body:
        if isinstance(node, ast.ClassDef) and node.name == cls:
            for item in node.body:
                if isinstance(item, (ast.FunctionDef, ast.AsyncFunctionDef)) and item.name == meth:
                    return item
    return None


def render_wrap() -> str:
    lines = ["/- GENERATED by harness/pysrc.py from the current source of /repo/koda_validate — do not edit -/",
             "import KodaModel.PyWrap", "", "namespace Koda.Src", ""]
    for fn, cls, meth, name in WRAP_TARGETS:
        m = _find_method(fn, cls, meth)
        if m is None or len(m.args.args) != 2 or m.decorator_list:
            term = '[.unsupported "not found / signature"]'
        else:
            term = WTr(m.args.args[1].arg).block(m.body)
        lines += [f"def {name} : List WStmt :=", f"  {term}", ""]
    pins = []
    for fn, cls, meth in WRAP_PINS:
        m = _find_method(fn, cls, meth)
        pins.append(f"{cls}.{meth}: " + (" ; ".join(ast.unparse(b) for b in m.body
                                                   if not (isinstance(b, ast.Expr) and isinstance(b.value, ast.Constant)))
                                        if m is not None else "<not found>"))
    lines += ["def wrapPins : List String := [" + ", ".join(lstr(x) for x in pins) + "]", "", "end Koda.Src", ""]
    return "\n".join(lines)


# ---------------------------------------------------------------------------------------------
# EqualsValidator (koda_validate/generic.py) -> Koda.EStmt (lean/KodaModel/PyEq.lean)

OUT_EQ = os.path.join(os.path.dirname(OUT), "EqSrc.lean")
EVARS = {"val": "val", "match_type": "matchType", "preprocess": "preprocess"}
ESELF = {"match": "match_", "preprocessors": "preprocessors", "predicate": "predicate"}


class ETr:
    def exp(self, e: ast.expr) -> str:
        if isinstance(e, ast.Name):
            if e.id == "self":
                return ".self"
            if e.id in EVARS:
                return f"(.var .{EVARS[e.id]})"
        if isinstance(e, ast.Constant) and isinstance(e.value, bool):
            return f"(.bool {'true' if e.value else 'false'})"
        if isinstance(e, ast.Attribute) and isinstance(e.value, ast.Name) and e.value.id == "self":
            a = f".{ESELF[e.attr]}" if e.attr in ESELF else f"(.other {lstr(e.attr)})"
            return f"(.selfAttr {a})"
        if isinstance(e, ast.NamedExpr) and isinstance(e.target, ast.Name) and e.target.id in EVARS:
            return f"(.walrus .{EVARS[e.target.id]} {self.exp(e.value)})"
        if isinstance(e, ast.Compare) and len(e.ops) == 1 and isinstance(e.ops[0], ast.Eq):
            return f"(.eq {self.exp(e.left)} {self.exp(e.comparators[0])})"
        if isinstance(e, ast.Tuple) and len(e.elts) == 2:
            return f"(.pair {self.exp(e.elts[0])} {self.exp(e.elts[1])})"
        if isinstance(e, ast.List) and len(e.elts) == 1:
            return f"(.list1 {self.exp(e.elts[0])})"
        if isinstance(e, ast.Call) and not e.keywords and not any(isinstance(a, ast.Starred) for a in e.args):
            f, args = e.func, e.args
            if isinstance(f, ast.Name) and f.id == "type" and len(args) == 1:
                return f"(.typeOf {self.exp(args[0])})"
            table = {"TypeErr": ("mkTypeErr", 1), "PredicateErrs": ("mkPredErrs", 1), "Invalid": ("mkInvalid", 3)}
            if isinstance(f, ast.Name) and f.id in table and len(args) == table[f.id][1]:
                return f"(.{table[f.id][0]} {' '.join(self.exp(a) for a in args)})"
            if len(args) == 1 and not (isinstance(f, ast.Name) and f.id not in EVARS):
                return f"(.call1 {self.exp(f)} {self.exp(args[0])})"
        return f"(.unsupported {lstr(ast.dump(e)[:160])})"

    def stmt(self, s: ast.stmt) -> str:
        if isinstance(s, ast.Assign) and len(s.targets) == 1 and isinstance(s.targets[0], ast.Name) and s.targets[0].id in EVARS:
            return f"(.assign .{EVARS[s.targets[0].id]} {self.exp(s.value)})"
        if isinstance(s, ast.If):
            return f"(.ite {self.exp(s.test)} {self.block(s.body)} {self.block(s.orelse)})"
        if isinstance(s, ast.For) and isinstance(s.target, ast.Name) and s.target.id in EVARS and not s.orelse:
            return f"(.forIn .{EVARS[s.target.id]} {self.exp(s.iter)} {self.block(s.body)})"
        if isinstance(s, ast.Return) and s.value is not None:
            return f"(.ret {self.exp(s.value)})"
        return f"(.unsupported {lstr(ast.dump(s)[:160])})"

    def block(self, body: List[ast.stmt]) -> str:
        body = [s for s in body if not (isinstance(s, ast.Expr) and isinstance(s.value, ast.Constant))]
        return "[" + ", ".join(self.stmt(s) for s in body) + "]"


def render_eq() -> str:
    m = _find_method("generic.py", "EqualsValidator", "_validate_to_tuple")
    term = ETr().block(m.body) if m is not None and [a.arg for a in m.args.args] == ["self", "val"] else '[.unsupported "not found"]'
    pins = []
    for meth in ("_validate_to_tuple_async", "__init__"):
        mm = _find_method("generic.py", "EqualsValidator", meth)
        pins.append(f"EqualsValidator.{meth}: " + (" ; ".join(ast.unparse(b) for b in mm.body
                                                              if not (isinstance(b, ast.Expr) and isinstance(b.value, ast.Constant)))
                                                   if mm is not None else "<not found>"))
    lines = ["/- GENERATED by harness/pysrc.py from the current source of /repo/koda_validate/generic.py — do not edit -/",
             "import KodaModel.PyEq", "", "namespace Koda.Src", "", "def equalsSync : List EStmt :=", f"  {term}", "",
             "def equalsPins : List String := [" + ", ".join(lstr(x) for x in pins) + "]", "", "end Koda.Src", ""]
    return "\n".join(lines)


# ---------------------------------------------------------------------------------------------
# CacheValidatorBase (koda_validate/base.py) -> Koda.KStmt (lean/KodaModel/PyCache.lean)

OUT_CACHE = os.path.join(os.path.dirname(OUT), "CacheSrc.lean")
CVARS = {"cache_result": "cacheResult", "result": "result"}
CMETHS = {"cache_get_sync": "getSync", "cache_set_sync": "setSync", "cache_get_async": "getAsync", "cache_set_async": "setAsync"}
CATTRS = {"is_just": "isJust", "val": "valA"}


class KTr:
    def exp(self, e: ast.expr) -> str:
        if isinstance(e, ast.Name):
            if e.id == "val":
                return ".val"
            if e.id in CVARS:
                return f"(.var .{CVARS[e.id]})"
        if isinstance(e, ast.Await):
            return f"(.await {self.exp(e.value)})"
        if isinstance(e, ast.Attribute) and not (isinstance(e.value, ast.Name) and e.value.id == "self"):
            a = f".{CATTRS[e.attr]}" if e.attr in CATTRS else f"(.other {lstr(e.attr)})"
            return f"(.attr {self.exp(e.value)} {a})"
        if isinstance(e, ast.Call) and not e.keywords and not any(isinstance(a, ast.Starred) for a in e.args):
            f, args = e.func, e.args
            src = ast.unparse(f)
            if src == "self.validator" and len(args) == 1:
                return f"(.callValidator {self.exp(args[0])})"
            if src == "self.validator.validate_async" and len(args) == 1:
                return f"(.validatorAsync {self.exp(args[0])})"
            if isinstance(f, ast.Attribute) and isinstance(f.value, ast.Name) and f.value.id == "self" and len(args) in (1, 2):
                m = f".{CMETHS[f.attr]}" if f.attr in CMETHS else f"(.other {lstr(f.attr)})"
                return f"(.selfMeth{len(args)} {m} {' '.join(self.exp(a) for a in args)})"
        return f"(.unsupported {lstr(ast.dump(e)[:160])})"

    def stmt(self, s: ast.stmt) -> str:
        if isinstance(s, ast.Assign) and len(s.targets) == 1 and isinstance(s.targets[0], ast.Name) and s.targets[0].id in CVARS:
            return f"(.assign .{CVARS[s.targets[0].id]} {self.exp(s.value)})"
        if isinstance(s, ast.If):
            return f"(.ite {self.exp(s.test)} {self.block(s.body)} {self.block(s.orelse)})"
        if isinstance(s, ast.Return) and s.value is not None:
            return f"(.ret {self.exp(s.value)})"
        if isinstance(s, ast.Expr):
            return f"(.expr {self.exp(s.value)})"
        return f"(.unsupported {lstr(ast.dump(s)[:160])})"

    def block(self, body: List[ast.stmt]) -> str:
        body = [s for s in body if not (isinstance(s, ast.Expr) and isinstance(s.value, ast.Constant))]
        return "[" + ", ".join(self.stmt(s) for s in body) + "]"


def render_cache() -> str:
    lines = ["/- GENERATED by harness/pysrc.py from the current source of /repo/koda_validate/base.py — do not edit -/",
             "import KodaModel.PyCache", "", "namespace Koda.Src", ""]
    for meth, name in (("__call__", "cacheSync"), ("validate_async", "cacheAsync")):
        m = _find_method("base.py", "CacheValidatorBase", meth)
        ok = (m is not None and [a.arg for a in m.args.args] == ["self", "val"] and not m.decorator_list
              and isinstance(m, ast.AsyncFunctionDef) == (meth == "validate_async"))
        term = KTr().block(m.body) if ok else '[.unsupported "not found / signature"]'
        lines += [f"def {name} : List KStmt :=", f"  {term}", ""]
    lines += ["end Koda.Src", ""]
    return "\n".join(lines)


# ---------------------------------------------------------------------------------------------
# SetValidator / UniformTupleValidator (set.py, tuple.py) -> Koda.QStmt (lean/KodaModel/PySeq.lean)

OUT_SEQ = os.path.join(os.path.dirname(OUT), "SeqSrc.lean")
QVARS = {"coerced": "coerced", "coerced_val": "coercedVal", "list_errors": "listErrors", "tuple_errors": "listErrors",
         "return_list": "returnList", "return_set": "returnList", "index_errors": "indexErrs", "item_errs": "indexErrs",
         "i": "i", "item": "item", "is_valid": "isValid", "item_result": "itemResult",
         "predicate_errors": "predicateErrors", "pred": "pred", "pred_async": "predAsync", "_result": "result"}
QSELF = {"coerce": "coerce", "predicates": "predicates", "predicates_async": "predicatesAsync", "__class__": "cls",
         "_item_validator_is_tuple": "itemIsTuple", "item_validator": "itemValidator"}
QATTRS = {"is_just": "isJust", "val": "valA", "compatible_types": "compatibleTypes", "is_valid": "isValid"}
QMETHS = {"__call__": "call", "validate_async": "validateAsync", "_validate_to_tuple": "validateToTuple",
          "_validate_to_tuple_async": "validateToTupleAsync"}
QCTORS = {"CoercionErr": ("mkCoercionErr", 2), "TypeErr": ("mkTypeErr", 1), "PredicateErrs": ("mkPredErrs", 1),
          "IndexErrs": ("mkIndexErrs", 1), "SetErrs": ("mkSetErrs", 1), "Invalid": ("mkInvalid", 3),
          "_async_predicates_warning": ("warn", 1), "enumerate": ("enumerate", 1), "tuple": ("tupleOf", 1)}
QTYS = {"list": ".listTy", "set": ".setTy", "tuple": ".tupleTy"}


class QTr:
    """one instance per function: two source names may not share a slot of the interpreter's environment"""

    def __init__(self) -> None:
        self.slots: Dict[str, str] = {}

    def var(self, name: str) -> Optional[str]:
        if name not in QVARS:
            return None
        slot = QVARS[name]
        if self.slots.setdefault(slot, name) != name:
            return None
        return slot

    def exp(self, e: ast.expr) -> str:
        if isinstance(e, ast.Name):
            if e.id == "self":
                return ".self"
            if e.id == "val":
                return ".val"
            if e.id in QTYS:
                return QTYS[e.id]
            v = self.var(e.id)
            if v:
                return f"(.var .{v})"
        if isinstance(e, ast.Constant) and isinstance(e.value, bool):
            return f"(.bool {'true' if e.value else 'false'})"
        if isinstance(e, ast.List) and not e.elts:
            return ".emptyList"
        if isinstance(e, ast.Dict) and not e.keys:
            return ".emptyDict"
        if isinstance(e, ast.Await):
            return f"(.await {self.exp(e.value)})"
        if isinstance(e, ast.Tuple) and len(e.elts) == 2:
            return f"(.pair {self.exp(e.elts[0])} {self.exp(e.elts[1])})"
        if isinstance(e, ast.IfExp):
            return f"(.ifExp {self.exp(e.test)} {self.exp(e.body)} {self.exp(e.orelse)})"
        if isinstance(e, ast.NamedExpr) and isinstance(e.target, ast.Name) and self.var(e.target.id):
            return f"(.walrus .{self.var(e.target.id)} {self.exp(e.value)})"
        if isinstance(e, ast.UnaryOp) and isinstance(e.op, ast.Not):
            return f"(.not {self.exp(e.operand)})"
        if isinstance(e, ast.Compare) and len(e.ops) == 1:
            l, r = e.left, e.comparators[0]
            if (isinstance(e.ops[0], ast.Is) and isinstance(l, ast.Call) and isinstance(l.func, ast.Name) and l.func.id == "type"
                    and len(l.args) == 1 and not l.keywords and isinstance(r, ast.Name) and r.id in QTYS):
                return f"(.typeIs {self.exp(l.args[0])} {QTYS[r.id]})"
            if isinstance(e.ops[0], ast.IsNot) and isinstance(r, ast.Constant) and r.value is None:
                return f"(.isNotNone {self.exp(l)})"
        if isinstance(e, ast.Attribute):
            if isinstance(e.value, ast.Name) and e.value.id == "self":
                a = f".{QSELF[e.attr]}" if e.attr in QSELF else f"(.other {lstr(e.attr)})"
                return f"(.selfAttr {a})"
            a = f".{QATTRS[e.attr]}" if e.attr in QATTRS else f"(.other {lstr(e.attr)})"
            return f"(.attr {self.exp(e.value)} {a})"
        if (isinstance(e, ast.ListComp) and len(e.generators) == 1 and not e.generators[0].is_async
                and len(e.generators[0].ifs) == 1 and isinstance(e.generators[0].target, ast.Name)
                and self.var(e.generators[0].target.id)):
            g = e.generators[0]
            return f"(.listComp {self.exp(e.elt)} .{self.var(g.target.id)} {self.exp(g.iter)} {self.exp(g.ifs[0])})"
        if isinstance(e, ast.Call) and not e.keywords and not any(isinstance(a, ast.Starred) for a in e.args):
            f, args = e.func, e.args
            if isinstance(f, ast.Name) and f.id == "set" and not args:
                return ".emptySet"
            if isinstance(f, ast.Name) and f.id in QCTORS and len(args) == QCTORS[f.id][1]:
                return f"(.{QCTORS[f.id][0]} {' '.join(self.exp(a) for a in args)})"
            if isinstance(f, ast.Attribute) and f.attr in QMETHS and len(args) == 1 and (
                    (isinstance(f.value, ast.Name) and f.value.id in QVARS)
                    or (isinstance(f.value, ast.Attribute) and isinstance(f.value.value, ast.Name) and f.value.value.id == "self")):
                return f"(.meth {self.exp(f.value)} .{QMETHS[f.attr]} {self.exp(args[0])})"
            if len(args) == 1 and not (isinstance(f, ast.Name) and f.id not in QVARS):
                return f"(.call1 {self.exp(f)} {self.exp(args[0])})"
        return f"(.unsupported {lstr(ast.dump(e)[:160])})"

    def stmt(self, s: ast.stmt) -> str:
        if isinstance(s, ast.Assign) and len(s.targets) == 1:
            t = s.targets[0]
            if isinstance(t, ast.Name) and self.var(t.id):
                return f"(.assign .{self.var(t.id)} {self.exp(s.value)})"
            if (isinstance(t, ast.Tuple) and len(t.elts) == 2 and all(isinstance(x, ast.Name) and self.var(x.id) for x in t.elts)):
                return f"(.assign2 .{self.var(t.elts[0].id)} .{self.var(t.elts[1].id)} {self.exp(s.value)})"
            if isinstance(t, ast.Subscript) and isinstance(t.value, ast.Name) and self.var(t.value.id):
                return f"(.setItem .{self.var(t.value.id)} {self.exp(t.slice)} {self.exp(s.value)})"
        if isinstance(s, ast.AnnAssign) and isinstance(s.target, ast.Name) and self.var(s.target.id) and s.value is not None:
            return f"(.assign .{self.var(s.target.id)} {self.exp(s.value)})"
        if isinstance(s, ast.If):
            return f"(.ite {self.exp(s.test)} {self.block(s.body)} {self.block(s.orelse)})"
        if isinstance(s, ast.For) and not s.orelse:
            t = s.target
            if isinstance(t, ast.Name) and self.var(t.id):
                return f"(.forIn .{self.var(t.id)} {self.exp(s.iter)} {self.block(s.body)})"
            if isinstance(t, ast.Tuple) and len(t.elts) == 2 and all(isinstance(x, ast.Name) and self.var(x.id) for x in t.elts):
                return f"(.forIn2 .{self.var(t.elts[0].id)} .{self.var(t.elts[1].id)} {self.exp(s.iter)} {self.block(s.body)})"
        if isinstance(s, ast.Return) and s.value is not None:
            return f"(.ret {self.exp(s.value)})"
        if isinstance(s, ast.Expr) and isinstance(s.value, ast.Call):
            c = s.value
            if (isinstance(c.func, ast.Attribute) and c.func.attr in ("append", "extend", "add") and isinstance(c.func.value, ast.Name)
                    and self.var(c.func.value.id) and len(c.args) == 1 and not c.keywords):
                return f"(.{c.func.attr} .{self.var(c.func.value.id)} {self.exp(c.args[0])})"
            return f"(.expr {self.exp(c)})"
        return f"(.unsupported {lstr(ast.dump(s)[:160])})"

    def block(self, body: List[ast.stmt]) -> str:
        body = [s for s in body if not (isinstance(s, ast.Expr) and isinstance(s.value, ast.Constant))]
        return "[" + ", ".join(self.stmt(s) for s in body) + "]"


SEQ_TARGETS = [("set.py", "SetValidator", "_validate_to_tuple", "setSync"),
               ("set.py", "SetValidator", "_validate_to_tuple_async", "setAsync"),
               ("tuple.py", "UniformTupleValidator", "_validate_to_tuple", "utupleSync"),
               ("tuple.py", "UniformTupleValidator", "_validate_to_tuple_async", "utupleAsync")]


def render_seq() -> str:
    lines = ["/- GENERATED by harness/pysrc.py from the current source of /repo/koda_validate/set.py, tuple.py — do not edit -/",
             "import KodaModel.PySeq", "", "namespace Koda.Src", ""]
    for fn, cls, meth, name in SEQ_TARGETS:
        m = _find_method(fn, cls, meth)
        ok = (m is not None and [a.arg for a in m.args.args] == ["self", "val"] and not m.decorator_list
              and isinstance(m, ast.AsyncFunctionDef) == meth.endswith("_async"))
        term = QTr().block(m.body) if ok else '[.unsupported "not found / signature"]'
        lines += [f"def {name} : List QStmt :=", f"  {term}", ""]
    inits = []
    for fn, cls in (("set.py", "SetValidator"), ("tuple.py", "UniformTupleValidator")):
        m = _find_method(fn, cls, "__init__")
        inits.append(f"{cls}.__init__: " + (" ; ".join(ast.unparse(b) for b in m.body
                                                       if not (isinstance(b, ast.Expr) and isinstance(b.value, ast.Constant)))
                                            if m is not None else "<not found>"))
    lines += ["def seqInits : List String := [" + ", ".join(lstr(x) for x in inits) + "]", "", "end Koda.Src", ""]
    return "\n".join(lines)


# ---------------------------------------------------------------------------------------------
# NTupleValidator (tuple.py) -> Koda.NStmt (lean/KodaModel/PyNTuple.lean)

OUT_NTUPLE = os.path.join(os.path.dirname(OUT), "NTupleSrc.lean")
NVARS = {"coerced": "coerced", "coerced_val": "coercedVal", "errs": "errs", "vals": "vals", "i": "i", "validator": "validator",
         "tuple_val": "tupleVal", "succeeded": "succeeded", "new_val": "newVal", "obj": "obj", "obj_result": "objResult"}
NSELF = {"coerce": "coerce", "_len_predicate": "lenPredicate", "validate_object": "validateObject",
         "_wrapped_fields_sync": "wrappedSync", "_wrapped_fields_async": "wrappedAsync"}
NATTRS = {"is_just": "isJust", "val": "valA", "compatible_types": "compatibleTypes"}
NCTORS = {"CoercionErr": ("mkCoercionErr", 2), "TypeErr": ("mkTypeErr", 1), "PredicateErrs": ("mkPredErrs", 1),
          "IndexErrs": ("mkIndexErrs", 1), "Invalid": ("mkInvalid", 3), "enumerate": ("enumerate", 1), "zip": ("zip", 2),
          "tuple": ("tupleOf", 1)}
NTYS = {"list": ".listTy", "tuple": ".tupleTy"}


class NTr:
    def exp(self, e: ast.expr) -> str:
        if isinstance(e, ast.Name):
            if e.id == "self":
                return ".self"
            if e.id == "val":
                return ".val"
            if e.id in NTYS:
                return NTYS[e.id]
            if e.id in NVARS:
                return f"(.var .{NVARS[e.id]})"
        if isinstance(e, ast.Constant) and isinstance(e.value, bool):
            return f"(.bool {'true' if e.value else 'false'})"
        if isinstance(e, ast.List) and not e.elts:
            return ".emptyList"
        if isinstance(e, ast.List) and len(e.elts) == 1:
            return f"(.list1 {self.exp(e.elts[0])})"
        if isinstance(e, ast.Dict) and not e.keys:
            return ".emptyDict"
        if isinstance(e, ast.Await):
            return f"(.await {self.exp(e.value)})"
        if isinstance(e, ast.Tuple) and len(e.elts) == 2:
            return f"(.pair {self.exp(e.elts[0])} {self.exp(e.elts[1])})"
        if isinstance(e, ast.NamedExpr) and isinstance(e.target, ast.Name) and e.target.id in NVARS:
            return f"(.walrus .{NVARS[e.target.id]} {self.exp(e.value)})"
        if isinstance(e, ast.UnaryOp) and isinstance(e.op, ast.Not):
            return f"(.not {self.exp(e.operand)})"
        if isinstance(e, ast.Compare) and len(e.ops) == 1 and isinstance(e.ops[0], ast.Is):
            l, r = e.left, e.comparators[0]
            if (isinstance(l, ast.Call) and isinstance(l.func, ast.Name) and l.func.id == "type"
                    and len(l.args) == 1 and not l.keywords and isinstance(r, ast.Name) and r.id in NTYS):
                return f"(.typeIs {self.exp(l.args[0])} {NTYS[r.id]})"
            if isinstance(r, ast.Constant) and r.value is None:
                return f"(.isNone {self.exp(l)})"
        if isinstance(e, ast.Attribute):
            if isinstance(e.value, ast.Name) and e.value.id == "self":
                a = f".{NSELF[e.attr]}" if e.attr in NSELF else f"(.other {lstr(e.attr)})"
                return f"(.selfAttr {a})"
            a = f".{NATTRS[e.attr]}" if e.attr in NATTRS else f"(.other {lstr(e.attr)})"
            return f"(.attr {self.exp(e.value)} {a})"
        if isinstance(e, ast.Call) and not e.keywords and not any(isinstance(a, ast.Starred) for a in e.args):
            f, args = e.func, e.args
            if isinstance(f, ast.Name) and f.id in NCTORS and len(args) == NCTORS[f.id][1]:
                return f"(.{NCTORS[f.id][0]} {' '.join(self.exp(a) for a in args)})"
            if len(args) == 1 and not (isinstance(f, ast.Name) and f.id not in NVARS):
                return f"(.call1 {self.exp(f)} {self.exp(args[0])})"
        return f"(.unsupported {lstr(ast.dump(e)[:160])})"

    def stmt(self, s: ast.stmt) -> str:
        if isinstance(s, ast.Assign) and len(s.targets) == 1:
            t = s.targets[0]
            if isinstance(t, ast.Name) and t.id in NVARS:
                return f"(.assign .{NVARS[t.id]} {self.exp(s.value)})"
            if (isinstance(t, ast.Tuple) and len(t.elts) == 2 and all(isinstance(x, ast.Name) and x.id in NVARS for x in t.elts)):
                return f"(.assign2 .{NVARS[t.elts[0].id]} .{NVARS[t.elts[1].id]} {self.exp(s.value)})"
            if isinstance(t, ast.Subscript) and isinstance(t.value, ast.Name) and t.value.id in NVARS:
                return f"(.setItem .{NVARS[t.value.id]} {self.exp(t.slice)} {self.exp(s.value)})"
        if isinstance(s, ast.AnnAssign) and isinstance(s.target, ast.Name) and s.target.id in NVARS and s.value is not None:
            return f"(.assign .{NVARS[s.target.id]} {self.exp(s.value)})"
        if isinstance(s, ast.If):
            return f"(.ite {self.exp(s.test)} {self.block(s.body)} {self.block(s.orelse)})"
        if isinstance(s, ast.For) and not s.orelse:
            t = s.target
            if (isinstance(t, ast.Tuple) and len(t.elts) == 2 and isinstance(t.elts[0], ast.Name) and t.elts[0].id in NVARS
                    and isinstance(t.elts[1], ast.Tuple) and len(t.elts[1].elts) == 2
                    and all(isinstance(x, ast.Name) and x.id in NVARS for x in t.elts[1].elts)):
                a, b = t.elts[1].elts
                return f"(.forIn3 .{NVARS[t.elts[0].id]} .{NVARS[a.id]} .{NVARS[b.id]} {self.exp(s.iter)} {self.block(s.body)})"
        if isinstance(s, ast.Return) and s.value is not None:
            return f"(.ret {self.exp(s.value)})"
        if isinstance(s, ast.Expr) and isinstance(s.value, ast.Call):
            c = s.value
            if (isinstance(c.func, ast.Attribute) and c.func.attr == "append" and isinstance(c.func.value, ast.Name)
                    and c.func.value.id in NVARS and len(c.args) == 1 and not c.keywords):
                return f"(.append .{NVARS[c.func.value.id]} {self.exp(c.args[0])})"
        return f"(.unsupported {lstr(ast.dump(s)[:160])})"

    def block(self, body: List[ast.stmt]) -> str:
        body = [s for s in body if not (isinstance(s, ast.Expr) and isinstance(s.value, ast.Constant))]
        return "[" + ", ".join(self.stmt(s) for s in body) + "]"


def render_ntuple() -> str:
    lines = ["/- GENERATED by harness/pysrc.py from the current source of /repo/koda_validate/tuple.py — do not edit -/",
             "import KodaModel.PyNTuple", "", "namespace Koda.Src", ""]
    for meth, name in (("_validate_to_tuple", "ntupleSync"), ("_validate_to_tuple_async", "ntupleAsync")):
        m = _find_method("tuple.py", "NTupleValidator", meth)
        ok = (m is not None and [a.arg for a in m.args.args] == ["self", "val"] and not m.decorator_list
              and isinstance(m, ast.AsyncFunctionDef) == meth.endswith("_async"))
        term = NTr().block(m.body) if ok else '[.unsupported "not found / signature"]'
        lines += [f"def {name} : List NStmt :=", f"  {term}", ""]
    m = _find_method("tuple.py", "NTupleValidator", "__init__")
    init = (" ; ".join(ast.unparse(b) for b in m.body if not (isinstance(b, ast.Expr) and isinstance(b.value, ast.Constant)))
            if m is not None else "<not found>")
    lines += [f"def ntupleInit : String := {lstr(init)}", "", "end Koda.Src", ""]
    return "\n".join(lines)


# ---------------------------------------------------------------------------------------------
# MapValidator (dictionary.py) -> Koda.MStmt (lean/KodaModel/PyMap.lean)

OUT_MAP = os.path.join(os.path.dirname(OUT), "MapSrc.lean")
MVARS = {"coerced": "coerced", "coerced_val": "coercedVal", "predicate_errors": "predicateErrors", "predicate": "predicate",
         "pred_async": "predAsync", "return_dict": "returnDict", "errors": "errors", "key": "key", "val_": "valU",
         "key_result": "keyResult", "val_result": "valResult"}
MSELF = {"coerce": "coerce", "predicates": "predicates", "predicates_async": "predicatesAsync", "__class__": "cls",
         "key_validator": "keyValidator", "value_validator": "valueValidator"}
MATTRS = {"is_just": "isJust", "val": "valA", "compatible_types": "compatibleTypes", "is_valid": "isValid"}
MCTORS = {"CoercionErr": ("mkCoercionErr", 2), "TypeErr": ("mkTypeErr", 1), "PredicateErrs": ("mkPredErrs", 1),
          "MapErr": ("mkMapErr", 1), "Invalid": ("mkInvalid", 3), "Valid": ("mkValid", 1),
          "_async_predicates_warning": ("warn", 1)}


class MTr:
    def exp(self, e: ast.expr) -> str:
        if isinstance(e, ast.Name):
            if e.id == "self":
                return ".self"
            if e.id == "val":
                return ".val"
            if e.id == "dict":
                return ".dictTy"
            if e.id in MVARS:
                return f"(.var .{MVARS[e.id]})"
        if isinstance(e, ast.Constant) and e.value is None:
            return ".noneLit"
        if isinstance(e, ast.List) and not e.elts:
            return ".emptyList"
        if isinstance(e, ast.Dict) and not e.keys:
            return ".emptyDict"
        if isinstance(e, ast.Await):
            return f"(.await {self.exp(e.value)})"
        if isinstance(e, ast.IfExp):
            return f"(.ifExp {self.exp(e.test)} {self.exp(e.body)} {self.exp(e.orelse)})"
        if isinstance(e, ast.BoolOp) and isinstance(e.op, ast.And) and len(e.values) == 2:
            return f"(.and {self.exp(e.values[0])} {self.exp(e.values[1])})"
        if isinstance(e, ast.NamedExpr) and isinstance(e.target, ast.Name) and e.target.id in MVARS:
            return f"(.walrus .{MVARS[e.target.id]} {self.exp(e.value)})"
        if isinstance(e, ast.UnaryOp) and isinstance(e.op, ast.Not):
            return f"(.not {self.exp(e.operand)})"
        if isinstance(e, ast.Compare) and len(e.ops) == 1:
            l, r = e.left, e.comparators[0]
            if (isinstance(e.ops[0], ast.Is) and isinstance(l, ast.Call) and isinstance(l.func, ast.Name) and l.func.id == "type"
                    and len(l.args) == 1 and not l.keywords and isinstance(r, ast.Name) and r.id == "dict"):
                return f"(.typeIs {self.exp(l.args[0])} .dictTy)"
            if isinstance(e.ops[0], ast.IsNot) and isinstance(r, ast.Constant) and r.value is None:
                return f"(.isNotNone {self.exp(l)})"
        if isinstance(e, ast.Attribute):
            if isinstance(e.value, ast.Name) and e.value.id == "self":
                a = f".{MSELF[e.attr]}" if e.attr in MSELF else f"(.other {lstr(e.attr)})"
                return f"(.selfAttr {a})"
            a = f".{MATTRS[e.attr]}" if e.attr in MATTRS else f"(.other {lstr(e.attr)})"
            return f"(.attr {self.exp(e.value)} {a})"
        if isinstance(e, ast.Call) and not any(isinstance(a, ast.Starred) for a in e.args):
            f, args, kws = e.func, e.args, e.keywords
            if (isinstance(f, ast.Name) and f.id == "KeyValErrs" and not args and [k.arg for k in kws] == ["key", "val"]):
                return f"(.mkKeyValErrs {self.exp(kws[0].value)} {self.exp(kws[1].value)})"
            if kws:
                return f"(.unsupported {lstr(ast.dump(e)[:160])})"
            if isinstance(f, ast.Name) and f.id in MCTORS and len(args) == MCTORS[f.id][1]:
                return f"(.{MCTORS[f.id][0]} {' '.join(self.exp(a) for a in args)})"
            if isinstance(f, ast.Attribute) and f.attr == "validate_async" and len(args) == 1:
                return f"(.validateAsync {self.exp(f.value)} {self.exp(args[0])})"
            if isinstance(f, ast.Attribute) and f.attr == "items" and not args:
                return f"(.items {self.exp(f.value)})"
            if len(args) == 1 and not (isinstance(f, ast.Name) and f.id not in MVARS):
                return f"(.call1 {self.exp(f)} {self.exp(args[0])})"
        return f"(.unsupported {lstr(ast.dump(e)[:160])})"

    def stmt(self, s: ast.stmt) -> str:
        if isinstance(s, ast.Assign) and len(s.targets) == 1:
            t = s.targets[0]
            if isinstance(t, ast.Name) and t.id in MVARS:
                return f"(.assign .{MVARS[t.id]} {self.exp(s.value)})"
            if isinstance(t, ast.Subscript) and isinstance(t.value, ast.Name) and t.value.id in MVARS:
                return f"(.setItem .{MVARS[t.value.id]} {self.exp(t.slice)} {self.exp(s.value)})"
        if isinstance(s, ast.AnnAssign) and isinstance(s.target, ast.Name) and s.target.id in MVARS and s.value is not None:
            return f"(.assign .{MVARS[s.target.id]} {self.exp(s.value)})"
        if isinstance(s, ast.If):
            return f"(.ite {self.exp(s.test)} {self.block(s.body)} {self.block(s.orelse)})"
        if isinstance(s, ast.For) and not s.orelse:
            t = s.target
            if isinstance(t, ast.Name) and t.id in MVARS:
                return f"(.forIn .{MVARS[t.id]} {self.exp(s.iter)} {self.block(s.body)})"
            if isinstance(t, ast.Tuple) and len(t.elts) == 2 and all(isinstance(x, ast.Name) and x.id in MVARS for x in t.elts):
                return f"(.forIn2 .{MVARS[t.elts[0].id]} .{MVARS[t.elts[1].id]} {self.exp(s.iter)} {self.block(s.body)})"
        if isinstance(s, ast.Return) and s.value is not None:
            return f"(.ret {self.exp(s.value)})"
        if isinstance(s, ast.Expr) and isinstance(s.value, ast.Call):
            c = s.value
            if (isinstance(c.func, ast.Attribute) and c.func.attr == "append" and isinstance(c.func.value, ast.Name)
                    and c.func.value.id in MVARS and len(c.args) == 1 and not c.keywords):
                return f"(.append .{MVARS[c.func.value.id]} {self.exp(c.args[0])})"
            return f"(.expr {self.exp(c)})"
        return f"(.unsupported {lstr(ast.dump(s)[:160])})"

    def block(self, body: List[ast.stmt]) -> str:
        body = [s for s in body if not (isinstance(s, ast.Expr) and isinstance(s.value, ast.Constant))]
        return "[" + ", ".join(self.stmt(s) for s in body) + "]"


def render_map() -> str:
    lines = ["/- GENERATED by harness/pysrc.py from the current source of /repo/koda_validate/dictionary.py — do not edit -/",
             "import KodaModel.PyMap", "", "namespace Koda.Src", ""]
    for meth, name in (("__call__", "mapSync"), ("validate_async", "mapAsync")):
        m = _find_method("dictionary.py", "MapValidator", meth)
        ok = (m is not None and [a.arg for a in m.args.args] == ["self", "val"] and not m.decorator_list
              and isinstance(m, ast.AsyncFunctionDef) == (meth == "validate_async"))
        term = MTr().block(m.body) if ok else '[.unsupported "not found / signature"]'
        lines += [f"def {name} : List MStmt :=", f"  {term}", ""]
    m = _find_method("dictionary.py", "MapValidator", "__init__")
    init = (" ; ".join(ast.unparse(b) for b in m.body if not (isinstance(b, ast.Expr) and isinstance(b.value, ast.Constant)))
            if m is not None else "<not found>")
    lines += [f"def mapInit : String := {lstr(init)}", "", "end Koda.Src", ""]
    return "\n".join(lines)


# ---------------------------------------------------------------------------------------------
# DictValidatorAny (dictionary.py) -> Koda.DStmt (lean/KodaModel/PyDictAny.lean)

OUT_DICTANY = os.path.join(os.path.dirname(OUT), "DictAnySrc.lean")
DVARS = {"key_": "keyU", "validator": "validator", "key_required": "keyRequired", "success_dict": "successDict",
         "errs": "errs", "success": "success", "new_val": "newVal", "result": "result",
         "args": "args", "obj": "obj", "async_result": "asyncResult", "async_validator": "validator",
         "coerced": "coerced", "coerced_val": "coercedVal", "result_async": "asyncResult"}
DATTRS = {"is_just": "isJust", "val": "valA", "compatible_types": "compatibleTypes"}
DSELF = {"_disallow_synchronous": "disallowSync", "__class__": "cls", "fail_on_unknown_keys": "failOnUnknownKeys",
         "_keys_set": "keysSet", "_key_set": "keysSet", "into": "into", "coerce": "coerce", "_unknown_keys_err": "unknownKeysErr", "_fast_keys_sync": "fastKeysSync",
         "_fast_keys_async": "fastKeysAsync", "validate_object": "validateObject",
         "validate_object_async": "validateObjectAsync"}
DCTORS = {"TypeErr": ("mkTypeErr", 1), "KeyErrs": ("mkKeyErrs", 1), "Invalid": ("mkInvalid", 3), "CoercionErr": ("mkCoercionErr", 2),
          "_raise_validate_object_async_in_sync_mode": ("raiseAsyncInSync", 1)}


class DTr:
    def __init__(self, param: str = "data", target_attr: str = "") -> None:
        self.param, self.target_attr = param, target_attr

    def exp(self, e: ast.expr) -> str:
        if self.target_attr:
            src = ast.unparse(e)
            if src == f"self.{self.target_attr}":
                return "(.selfAttr .targetCls)"
            if src == "{dict, self.%s}" % self.target_attr:
                return ".dictOrCls"
            if isinstance(e, ast.Compare) and len(e.ops) == 1 and isinstance(e.ops[0], ast.Is) and \
                    ast.unparse(e.comparators[0]) == f"self.{self.target_attr}" and isinstance(e.left, ast.Call) and \
                    isinstance(e.left.func, ast.Name) and e.left.func.id == "type" and len(e.left.args) == 1:
                return f"(.typeIs {self.exp(e.left.args[0])} (.selfAttr .targetCls))"
            if isinstance(e, ast.Call) and ast.unparse(e.func) == f"self.{self.target_attr}" and not e.args and \
                    len(e.keywords) == 1 and e.keywords[0].arg is None:
                return f"(.construct {self.exp(e.keywords[0].value)})"
            if isinstance(e, ast.Call) and isinstance(e.func, ast.Name) and e.func.id == "_dataclass_instance_to_dict" and \
                    len(e.args) == 1 and not e.keywords:
                return f"(.instToDict {self.exp(e.args[0])})"
            if isinstance(e, ast.Call) and isinstance(e.func, ast.Attribute) and e.func.attr == "_asdict" and not e.args and \
                    not e.keywords:
                return f"(.instToDict {self.exp(e.func.value)})"
        if isinstance(e, ast.Name):
            if e.id == "self":
                return ".self"
            if e.id == self.param:
                return ".data"
            if e.id == "dict":
                return ".dictTy"
            if e.id == "missing_key_err":
                return ".missingKeyErr"
            if e.id == "nothing":
                return ".nothing"
            if e.id in DVARS:
                return f"(.var .{DVARS[e.id]})"
        if isinstance(e, ast.Constant) and isinstance(e.value, bool):
            return f"(.bool {'true' if e.value else 'false'})"
        if isinstance(e, ast.Dict) and not e.keys:
            return ".emptyDict"
        if isinstance(e, ast.List) and not e.elts:
            return ".emptyList"
        if isinstance(e, ast.Await):
            return f"(.await {self.exp(e.value)})"
        if isinstance(e, ast.Tuple) and len(e.elts) == 2:
            return f"(.pair {self.exp(e.elts[0])} {self.exp(e.elts[1])})"
        if isinstance(e, ast.BoolOp) and isinstance(e.op, ast.And) and len(e.values) == 2:
            return f"(.and {self.exp(e.values[0])} {self.exp(e.values[1])})"
        if (isinstance(e, ast.Call) and isinstance(e.func, ast.Name) and e.func.id == "isinstance" and len(e.args) == 2
                and not e.keywords and isinstance(e.args[1], ast.Name) and e.args[1].id == "dict"):
            return f"(.isInstDict {self.exp(e.args[0])})"
        if isinstance(e, ast.Call) and isinstance(e.func, ast.Name) and e.func.id == "MissingKeyErr" and not e.args and not e.keywords:
            return ".mkMissingKeyErr"
        if (isinstance(e, ast.Call) and not e.keywords and len(e.args) == 1 and isinstance(e.args[0], ast.Starred)):
            return f"(.callStar {self.exp(e.func)} {self.exp(e.args[0].value)})"
        if isinstance(e, ast.NamedExpr) and isinstance(e.target, ast.Name) and e.target.id in DVARS:
            return f"(.walrus .{DVARS[e.target.id]} {self.exp(e.value)})"
        if isinstance(e, ast.UnaryOp) and isinstance(e.op, ast.Not):
            return f"(.not {self.exp(e.operand)})"
        if isinstance(e, ast.Compare) and len(e.ops) == 1:
            l, r = e.left, e.comparators[0]
            if (isinstance(e.ops[0], ast.Is) and isinstance(l, ast.Call) and isinstance(l.func, ast.Name) and l.func.id == "type"
                    and len(l.args) == 1 and not l.keywords and isinstance(r, ast.Name) and r.id == "dict"):
                return f"(.typeIs {self.exp(l.args[0])} .dictTy)"
            if isinstance(e.ops[0], ast.NotIn):
                return f"(.notIn {self.exp(l)} {self.exp(r)})"
        if isinstance(e, ast.Subscript):
            return f"(.subscript {self.exp(e.value)} {self.exp(e.slice)})"
        if isinstance(e, ast.Attribute) and isinstance(e.value, ast.Name) and e.value.id == "self":
            a = f".{DSELF[e.attr]}" if e.attr in DSELF else f"(.other {lstr(e.attr)})"
            return f"(.selfAttr {a})"
        if isinstance(e, ast.Attribute):
            a = f".{DATTRS[e.attr]}" if e.attr in DATTRS else f"(.other {lstr(e.attr)})"
            return f"(.attr {self.exp(e.value)} {a})"
        if isinstance(e, ast.Call) and not e.keywords and not any(isinstance(a, ast.Starred) for a in e.args):
            f, args = e.func, e.args
            if isinstance(f, ast.Name) and f.id == "cast" and len(args) == 2:
                return self.exp(args[1])        # `typing.cast` returns its second argument
            if isinstance(f, ast.Name) and f.id in DCTORS and len(args) == DCTORS[f.id][1]:
                return f"(.{DCTORS[f.id][0]} {' '.join(self.exp(a) for a in args)})"
            if len(args) == 1 and not (isinstance(f, ast.Name) and f.id not in DVARS):
                return f"(.call1 {self.exp(f)} {self.exp(args[0])})"
        return f"(.unsupported {lstr(ast.dump(e)[:160])})"

    def stmt(self, s: ast.stmt) -> str:
        if isinstance(s, ast.Assign) and len(s.targets) == 1:
            t = s.targets[0]
            if isinstance(t, ast.Name) and t.id in DVARS:
                return f"(.assign .{DVARS[t.id]} {self.exp(s.value)})"
            if (isinstance(t, ast.Tuple) and len(t.elts) == 2 and all(isinstance(x, ast.Name) and x.id in DVARS for x in t.elts)):
                return f"(.assign2 .{DVARS[t.elts[0].id]} .{DVARS[t.elts[1].id]} {self.exp(s.value)})"
            if isinstance(t, ast.Subscript) and isinstance(t.value, ast.Name) and t.value.id in DVARS:
                return f"(.setItem .{DVARS[t.value.id]} {self.exp(t.slice)} {self.exp(s.value)})"
        if isinstance(s, ast.AnnAssign) and isinstance(s.target, ast.Name) and s.target.id in DVARS and s.value is not None:
            return f"(.assign .{DVARS[s.target.id]} {self.exp(s.value)})"
        if isinstance(s, ast.If):
            return f"(.ite {self.exp(s.test)} {self.block(s.body)} {self.block(s.orelse)})"
        if isinstance(s, ast.For) and not s.orelse:
            t = s.target
            if isinstance(t, ast.Name) and t.id in DVARS:
                return f"(.forIn .{DVARS[t.id]} {self.exp(s.iter)} {self.block(s.body)})"
            if isinstance(t, ast.Tuple) and len(t.elts) == 3 and all(isinstance(x, ast.Name) and x.id in DVARS for x in t.elts):
                a, b, c = t.elts
                return f"(.forIn3 .{DVARS[a.id]} .{DVARS[b.id]} .{DVARS[c.id]} {self.exp(s.iter)} {self.block(s.body)})"
        if isinstance(s, ast.Return) and s.value is not None:
            return f"(.ret {self.exp(s.value)})"
        if isinstance(s, ast.Expr) and isinstance(s.value, ast.Call):
            c = s.value
            if (isinstance(c.func, ast.Attribute) and c.func.attr == "append" and isinstance(c.func.value, ast.Name)
                    and c.func.value.id in DVARS and len(c.args) == 1 and not c.keywords):
                return f"(.append .{DVARS[c.func.value.id]} {self.exp(c.args[0])})"
            return f"(.expr {self.exp(s.value)})"
        return f"(.unsupported {lstr(ast.dump(s)[:160])})"

    def block(self, body: List[ast.stmt]) -> str:
        body = [s for s in body if not (isinstance(s, ast.Expr) and isinstance(s.value, ast.Constant))]
        return "[" + ", ".join(self.stmt(s) for s in body) + "]"


def render_dictany() -> str:
    lines = ["/- GENERATED by harness/pysrc.py from the current source of /repo/koda_validate/dictionary.py — do not edit -/",
             "import KodaModel.PyDictAny", "", "namespace Koda.Src", ""]
    for meth, name in (("_validate_to_tuple", "dictAnySync"), ("_validate_to_tuple_async", "dictAnyAsync")):
        m = _find_method("dictionary.py", "DictValidatorAny", meth)
        ok = (m is not None and [a.arg for a in m.args.args] == ["self", "data"] and not m.decorator_list
              and isinstance(m, ast.AsyncFunctionDef) == meth.endswith("_async"))
        term = DTr().block(m.body) if ok else '[.unsupported "not found / signature"]'
        lines += [f"def {name} : List DStmt :=", f"  {term}", ""]
    m = _find_method("dictionary.py", "DictValidatorAny", "__init__")
    init = (" ; ".join(ast.unparse(b).replace("\n", " ") for b in m.body if not (isinstance(b, ast.Expr) and isinstance(b.value, ast.Constant)))
            if m is not None else "<not found>")
    lines += [f"def dictAnyInit : String := {lstr(init)}", ""]
    # RecordValidator: the same language
    for meth, name in (("_validate_to_tuple", "recordSync"), ("_validate_to_tuple_async", "recordAsync")):
        m = _find_method("dictionary.py", "RecordValidator", meth)
        ok = (m is not None and [a.arg for a in m.args.args] == ["self", "data"] and not m.decorator_list
              and isinstance(m, ast.AsyncFunctionDef) == meth.endswith("_async"))
        term = DTr().block(m.body) if ok else '[.unsupported "not found / signature"]'
        lines += [f"def {name} : List DStmt :=", f"  {term}", ""]
    # its `__init__` is overloaded: the implementation is the last definition; only its tail (after the parameters) matters
    tree = ast.parse(open(os.path.join(PKG, "dictionary.py")).read())
    rinit = "<not found>"
    for node in tree.body:
        if isinstance(node, ast.ClassDef) and node.name == "RecordValidator":
            for item in node.body:
                if isinstance(item, ast.FunctionDef) and item.name == "__init__" and not item.decorator_list:
                    rinit = " ; ".join(ast.unparse(b).replace("\n", " ") for b in item.body
                                       if not (isinstance(b, ast.Expr) and isinstance(b.value, ast.Constant)))
    lines += [f"def recordInit : String := {lstr(rinit)}", ""]
    # TypedDictValidator: the same language
    for meth, name in (("_validate_to_tuple", "typedDictSync"), ("_validate_to_tuple_async", "typedDictAsync")):
        m = _find_method("typeddict.py", "TypedDictValidator", meth)
        ok = (m is not None and [a.arg for a in m.args.args] == ["self", "data"] and not m.decorator_list
              and isinstance(m, ast.AsyncFunctionDef) == meth.endswith("_async"))
        term = DTr().block(m.body) if ok else '[.unsupported "not found / signature"]'
        lines += [f"def {name} : List DStmt :=", f"  {term}", ""]
    # DataclassValidator / NamedTupleValidator: the same language (the parameter is called `val`)
    for fn, cls, attr, name in (("dataclasses.py", "DataclassValidator", "data_cls", "dataclass"),
                                ("namedtuple.py", "NamedTupleValidator", "named_tuple_cls", "namedTuple")):
        for meth, suffix in (("_validate_to_tuple", "Sync"), ("_validate_to_tuple_async", "Async")):
            m = _find_method(fn, cls, meth)
            ok = (m is not None and [a.arg for a in m.args.args] == ["self", "val"] and not m.decorator_list
                  and isinstance(m, ast.AsyncFunctionDef) == meth.endswith("_async"))
            term = DTr("val", attr).block(m.body) if ok else '[.unsupported "not found / signature"]'
            lines += [f"def {name}{suffix} : List DStmt :=", f"  {term}", ""]
    # their `__init__`s (where the schema is derived from the class and the per-key triples are precomputed), pinned text
    inits = []
    for fn, cls in (("dataclasses.py", "DataclassValidator"), ("namedtuple.py", "NamedTupleValidator"),
                    ("typeddict.py", "TypedDictValidator")):
        mi = _find_method(fn, cls, "__init__")
        inits.append(f"{cls}.__init__: " + (" ; ".join(ast.unparse(b).replace("\n", " ") for b in mi.body
                                                        if not (isinstance(b, ast.Expr) and isinstance(b.value, ast.Constant)))
                                             if mi is not None else "<not found>"))
    lines += ["def classInits : List String := [" + ", ".join(lstr(x) for x in inits) + "]", ""]
    m = _find_function("dataclasses.py", "_dataclass_instance_to_dict")
    lines += ["def instanceToDict : String := " + lstr(" ; ".join(ast.unparse(b).replace("\n", " ") for b in m.body) if m else "<not found>"), ""]
    lines += ["end Koda.Src", ""]
    return "\n".join(lines)


def _find_function(fn: str, name: str):
    tree = ast.parse(open(os.path.join(PKG, fn)).read())
    for node in tree.body:
        if isinstance(node, ast.FunctionDef) and node.name == name:
            return node
    return None


# ---------------------------------------------------------------------------------------------
# C19: what the validation methods read against what `__eq__` compares (lean/KodaModel/Generated/CongrSrc.lean)

OUT_CONGR = os.path.join(os.path.dirname(OUT), "CongrSrc.lean")
CONGR_TARGETS = [("_internal.py", "_ToTupleStandardValidator"), ("list.py", "ListValidator"), ("set.py", "SetValidator"),
                 ("tuple.py", "UniformTupleValidator"), ("tuple.py", "NTupleValidator"), ("dictionary.py", "MapValidator"),
                 ("dictionary.py", "RecordValidator"), ("dictionary.py", "DictValidatorAny"),
                 ("dataclasses.py", "DataclassValidator"), ("namedtuple.py", "NamedTupleValidator"),
                 ("typeddict.py", "TypedDictValidator"), ("union.py", "UnionValidator"), ("none.py", "OptionalValidator"),
                 ("none.py", "NoneValidator"), ("maybe.py", "MaybeValidator"), ("generic.py", "Lazy"),
                 ("generic.py", "EqualsValidator"), ("dictionary.py", "KeyNotRequired")]
_VAL_METHODS = {"__call__", "validate_async", "_validate_to_tuple", "_validate_to_tuple_async"}


def _congr_class(fn: str, cls: str):
    tree = ast.parse(open(os.path.join(PKG, fn)).read())
    for n in tree.body:
        if isinstance(n, ast.ClassDef) and n.name == cls:
            return n
    return None


def _congr_methods(c: ast.ClassDef, name: str) -> list:
    return [i for i in c.body if isinstance(i, (ast.FunctionDef, ast.AsyncFunctionDef)) and i.name == name
            and not any(isinstance(d, ast.Name) and d.id == "overload" for d in i.decorator_list)]


def _self_attrs_read(node: ast.AST) -> set:
    out = set()
    for n in ast.walk(node):
        if (isinstance(n, ast.Attribute) and isinstance(n.value, ast.Name) and n.value.id == "self"
                and isinstance(n.ctx, ast.Load) and n.attr not in _VAL_METHODS and n.attr != "__class__"):
            out.add(n.attr)
    return out


def _init_deps(fn_node: ast.FunctionDef) -> Dict[str, set]:
    """for every attribute `__init__` sets: the constructor parameters its value depends on (data and control
    dependences, through locals, loops and `.append` / `.add` on attributes) - a conservative over-approximation"""
    params = fn_node.args.args + fn_node.args.kwonlyargs + ([fn_node.args.vararg] if fn_node.args.vararg else []) + \
        ([fn_node.args.kwarg] if fn_node.args.kwarg else [])
    env: Dict[str, set] = {a.arg: {a.arg} for a in params if a.arg != "self"}
    attr: Dict[str, set] = {}

    def deps(e: ast.AST) -> set:
        d: set = set()
        for n in ast.walk(e):
            if isinstance(n, ast.Name) and n.id in env:
                d |= env[n.id]
            if isinstance(n, ast.Attribute) and isinstance(n.value, ast.Name) and n.value.id == "self" and n.attr in attr:
                d |= attr[n.attr]
        return d

    def walrus(e: ast.AST, ctrl: set) -> None:
        for n in ast.walk(e):
            if isinstance(n, ast.NamedExpr) and isinstance(n.target, ast.Name):
                env[n.target.id] = deps(n.value) | ctrl

    def run(stmts: list, ctrl: set) -> None:
        for st in stmts:
            if isinstance(st, (ast.Assign, ast.AnnAssign)) and getattr(st, "value", None) is not None:
                walrus(st.value, ctrl)
                d = deps(st.value) | ctrl
                for t in (st.targets if isinstance(st, ast.Assign) else [st.target]):
                    for n in ast.walk(t):
                        if isinstance(n, ast.Name):
                            env[n.id] = set(d)
                        if (isinstance(n, ast.Attribute) and isinstance(n.value, ast.Name) and n.value.id == "self"
                                and isinstance(n.ctx, ast.Store)):
                            attr[n.attr] = set(d)
            elif isinstance(st, ast.For):
                d = deps(st.iter) | ctrl
                for n in ast.walk(st.target):
                    if isinstance(n, ast.Name):
                        env[n.id] = set(d)
                run(st.body, ctrl | d)
                run(st.body, ctrl | d)
            elif isinstance(st, ast.If):
                walrus(st.test, ctrl)
                d = deps(st.test) | ctrl
                run(st.body, d)
                run(st.orelse, d)
            elif isinstance(st, ast.Expr) and isinstance(st.value, ast.Call):
                c = st.value
                if (isinstance(c.func, ast.Attribute) and c.func.attr in ("append", "add", "extend", "update")
                        and isinstance(c.func.value, ast.Attribute) and isinstance(c.func.value.value, ast.Name)
                        and c.func.value.value.id == "self"):
                    d = set()
                    for a in c.args:
                        walrus(a, ctrl)
                        d |= deps(a)
                    attr[c.func.value.attr] = attr.get(c.func.value.attr, set()) | d | ctrl
    run(fn_node.body, set())
    return attr


def collect_congr() -> List[Tuple[str, List[str], List[str]]]:
    out = []
    for fn, cls in CONGR_TARGETS:
        c = _congr_class(fn, cls)
        if c is None:
            out.append((cls, ["<class not found>"], []))
            continue
        reads: set = set()
        for m in _VAL_METHODS:
            for mm in _congr_methods(c, m):
                reads |= _self_attrs_read(mm)
        is_dc = any((isinstance(d, ast.Name) and d.id == "dataclass") or
                    (isinstance(d, ast.Call) and isinstance(d.func, ast.Name) and d.func.id == "dataclass") for d in c.decorator_list)
        eqs = _congr_methods(c, "__eq__")
        if eqs:
            compared: set = set()
            for e in eqs:
                compared |= _self_attrs_read(e)
        elif is_dc:
            compared = {i.target.id for i in c.body if isinstance(i, ast.AnnAssign) and isinstance(i.target, ast.Name)}
        else:
            compared = set()          # identity comparison: nothing is compared
        inits = _congr_methods(c, "__init__")
        attr = _init_deps(inits[-1]) if inits else {}
        pr: set = set()
        for a in reads:
            pr |= attr.get(a, {"attr:" + a})
        pc: set = set()
        for a in compared:
            pc |= attr.get(a, {"attr:" + a})
        out.append((cls, sorted(pr), sorted(pc)))
    return out


def collect_pred_congr() -> List[Tuple[str, bool, bool, List[str], List[str]]]:
    """per Predicate / Processor class: (name, compares exactly its fields, i.e. a `@dataclass` with generated `__eq__` and
    no `__eq__` / `__hash__` of its own; no other method than `__call__` / `__init__` / `__post_init__` stores to self;
    the `self.<attr>` its methods read; its dataclass fields)"""
    found = []
    for fn in sorted(os.listdir(PKG)):
        if not fn.endswith(".py"):
            continue
        tree = ast.parse(open(os.path.join(PKG, fn)).read())
        for node in tree.body:
            if not isinstance(node, ast.ClassDef):
                continue
            bases = base_names(node)
            if "Predicate" not in bases and "Processor" not in bases and "PredicateAsync" not in bases:
                continue
            decs = [ast.unparse(d) for d in node.decorator_list]
            decs = [d[len("dataclasses."):] if d.startswith("dataclasses.") else d for d in decs]
            generated_eq = any(d == "dataclass" or (d.startswith("dataclass(") and "eq=False" not in d.replace(" ", ""))
                               for d in decs)
            own = [it.name for it in node.body if isinstance(it, (ast.FunctionDef, ast.AsyncFunctionDef))]
            eq_ok = generated_eq and "__eq__" not in own and "__hash__" not in own and "__ne__" not in own
            fields = [it.target.id for it in node.body
                      if isinstance(it, ast.AnnAssign) and isinstance(it.target, ast.Name)
                      and not ast.unparse(it.annotation).startswith("ClassVar")]
            classvars = [it.target.id for it in node.body
                         if isinstance(it, ast.AnnAssign) and isinstance(it.target, ast.Name)
                         and ast.unparse(it.annotation).startswith("ClassVar")]
            classvars += [t.id for it in node.body if isinstance(it, ast.Assign) for t in it.targets if isinstance(t, ast.Name)]
            reads = set()
            stores_ok = True
            for it in node.body:
                if isinstance(it, (ast.FunctionDef, ast.AsyncFunctionDef)):
                    reads |= {a for a in _self_attrs_read(it) if a not in classvars and not a.startswith("__")}
                    for sub in ast.walk(it):
                        if isinstance(sub, ast.Attribute) and isinstance(sub.ctx, (ast.Store, ast.Del)) \
                                and isinstance(sub.value, ast.Name) and sub.value.id == "self" \
                                and it.name not in ("__init__", "__post_init__"):
                            stores_ok = False
            found.append((node.name, eq_ok, stores_ok, sorted(reads), fields))
    found.sort()
    return found


def render_congr() -> str:
    rows = collect_congr()
    lines = ["/- GENERATED by harness/pysrc.py from the current source of /repo/koda_validate — do not edit -/", "",
             "namespace Koda.Src", "",
             "/-- per validator class: the constructor parameters (or class attributes, `attr:`) that what its validation methods",
             "    read depends on, and those that what `__eq__` compares depends on -/",
             "def congr : List (String × List String × List String) := ["]
    lines.append(",\n".join(f"  ({lstr(c)}, [{', '.join(lstr(x) for x in r)}], [{', '.join(lstr(x) for x in k)}])" for c, r, k in rows))
    lines += ["]", "",
              "/-- per predicate / processor class: `==` is the generated dataclass equality over exactly its fields; no method",
              "    but the constructor stores to `self`; the attributes its methods read; its fields -/",
              "def predCongr : List (String × Bool × Bool × List String × List String) := ["]
    lines.append(",\n".join(f"  ({lstr(c)}, {'true' if e else 'false'}, {'true' if st else 'false'}, "
                            f"[{', '.join(lstr(x) for x in r)}], [{', '.join(lstr(x) for x in f)}])"
                            for c, e, st, r, f in collect_pred_congr()))
    lines += ["]", "", "end Koda.Src", ""]
    return "\n".join(lines)


# ---------------------------------------------------------------------------------------------
# to_serializable_errs / pred_to_err_message (koda_validate/serialization/errors.py) -> Koda.RStmt
# (lean/KodaModel/PyRender.lean)

OUT_RENDER = os.path.join(os.path.dirname(OUT), "RenderSrc.lean")
RERR = {"CoercionErr": "coercion", "SerializableErr": "serializable", "ExtraKeysErr": "extraKeys", "TypeErr": "type",
        "PredicateErrs": "preds", "IndexErrs": "index", "MissingKeyErr": "missingKey", "MapErr": "map", "SetErrs": "set",
        "KeyErrs": "keys", "UnionErrs": "union", "ContainerErr": "container"}
RVLD = {"UUIDValidator": "uuid", "DecimalValidator": "decimal", "DatetimeValidator": "datetime", "DateValidator": "date",
        "DataclassValidator": "dataclass", "NamedTupleValidator": "namedtuple"}
RTY = {"list": ".list", "tuple": ".tuple", "dict": ".dict"}
RENDER_PROLOGUE = ["next_level = next_level or to_serializable_errs", "err = invalid.err_type", "vldtr = invalid.validator"]
RENDER_RETURNS = {
    "err.obj": "obj",
    "[pred_to_err_message(p) for p in err.predicates]": "predMsgs",
    "[[i, next_level(err)] for i, err in err.indexes.items()]": "indexPairs",
    "{'member_errors': [next_level(x) for x in err.item_errs]}": "members",
    "{str(k): next_level(v) for k, v in err.keys.items()}": "keysDict",
    "{'variants': [next_level(x) for x in err.variants]}": "variants",
    "next_level(err.child)": "child",
}
RENDER_MAP_LOOP = ["errs_dict: Dict[str, Serializable] = {}",
                   "for key, k_v_errs in err.keys.items():\n"
                   "    kv_dict: Dict[str, Serializable] = {k: next_level(v) for k, v in [('key', k_v_errs.key), "
                   "('value', k_v_errs.val)] if v is not None}\n"
                   "    errs_dict[str(key)] = kv_dict",
                   "return errs_dict"]
RENDER_BOUND = {"next_level", "err", "vldtr", "invalid"}
MESSAGE_PINS = ["_safe_repr", "_trunc_str", "_get_arg_fail_message", "_get_args_fail_msg"]


def _is_text(e: ast.AST) -> bool:
    return isinstance(e, ast.JoinedStr) or (isinstance(e, ast.Constant) and isinstance(e.value, str))


class RTr:
    """serialization/errors.py: the isinstance chain of `to_serializable_errs`"""

    def cond(self, e: ast.AST) -> str:
        if isinstance(e, ast.Call) and isinstance(e.func, ast.Name) and e.func.id == "isinstance" and len(e.args) == 2 \
                and not e.keywords and isinstance(e.args[0], ast.Name):
            who, what = e.args[0].id, e.args[1]
            if who == "err" and isinstance(what, ast.Name):
                return f"(.isErr {'.' + RERR[what.id] if what.id in RERR else '(.other ' + lstr(what.id) + ')'})"
            if who == "vldtr":
                names = [what] if isinstance(what, ast.Name) else list(what.elts) if isinstance(what, ast.Tuple) else None
                if names is not None and all(isinstance(n, ast.Name) for n in names):
                    return "(.isVldtr [" + ", ".join('.' + RVLD[n.id] if n.id in RVLD else '(.other ' + lstr(n.id) + ')'
                                                     for n in names) + "])"
        if isinstance(e, ast.Compare) and len(e.ops) == 1 and isinstance(e.ops[0], ast.Is) \
                and isinstance(e.comparators[0], ast.Name) and e.comparators[0].id in RTY:
            left = ast.unparse(e.left)
            if left == "err.dest_type":
                return f"(.destIs {RTY[e.comparators[0].id]})"
            if left == "err.expected_type":
                return f"(.expectedIs {RTY[e.comparators[0].id]})"
        if isinstance(e, ast.BoolOp) and isinstance(e.op, ast.Or) and len(e.values) >= 2:
            out = self.cond(e.values[-1])
            for v in reversed(e.values[:-1]):
                out = f"(.or {self.cond(v)} {out})"
            return out
        return f"(.unsupported {unsupported(e)})"

    def ret(self, e: ast.AST) -> str:
        src = ast.unparse(e)
        if src in RENDER_RETURNS:
            return "." + RENDER_RETURNS[src]
        if isinstance(e, ast.List) and len(e.elts) == 1 and _is_text(e.elts[0]):
            return ".msgList"
        if isinstance(e, ast.Dict) and len(e.keys) == 1 and isinstance(e.keys[0], ast.Constant):
            k, v = e.keys[0].value, e.values[0]
            if k == "__container__" and isinstance(v, ast.List) and len(v.elts) == 1 and _is_text(v.elts[0]):
                return ".containerMsg"
            if k == "__unknown_keys__" and isinstance(v, ast.Name) and v.id not in RENDER_BOUND:
                return ".unknownKeys"
        return f"(.unsupported {unsupported(e)})"

    def text_only(self, st: ast.stmt) -> bool:
        """assigns to local names other than the bound ones, and nothing else"""
        if isinstance(st, ast.Assign):
            return all(isinstance(t, ast.Name) and t.id not in RENDER_BOUND for t in st.targets)
        if isinstance(st, ast.If):
            return all(self.text_only(x) for x in st.body + st.orelse)
        return False

    def stmt(self, st: ast.stmt) -> str:
        if self.text_only(st):
            return ".text"
        if isinstance(st, ast.If):
            return f"(.ite {self.cond(st.test)} {self.block(st.body)} {self.block(st.orelse)})"
        if isinstance(st, ast.Return) and st.value is not None:
            return f"(.ret {self.ret(st.value)})"
        if isinstance(st, ast.Raise) and isinstance(st.exc, ast.Call) and ast.unparse(st.exc.func) == "TypeError":
            return ".raiseTypeError"
        return f"(.unsupported {unsupported(st)})"

    def block(self, body: List[ast.stmt]) -> str:
        if [ast.unparse(b) for b in body] == RENDER_MAP_LOOP:
            return "[.ret .mapDict]"
        return "[" + ", ".join(self.stmt(b) for b in body) + "]"


def render_render() -> str:
    lines = ["/- GENERATED by harness/pysrc.py from the current source of /repo/koda_validate — do not edit -/",
             "import KodaModel.PyRender", "", "namespace Koda.Src", ""]
    f = _find_function("serialization/errors.py", "to_serializable_errs")
    ok_sig = f is not None and [a.arg for a in f.args.args] == ["invalid", "next_level"] and not f.decorator_list
    body = [b for b in (f.body if f is not None else []) if not (isinstance(b, ast.Expr) and isinstance(b.value, ast.Constant))]
    prologue_ok = ok_sig and [ast.unparse(b) for b in body[:3]] == RENDER_PROLOGUE
    term = RTr().block(body[3:]) if prologue_ok else '[.unsupported "signature / prologue"]'
    lines += ["def toSerializableErrs : List RStmt :=", f"  {term}", ""]
    # pred_to_err_message: `if isinstance(pred, K): ... return <text>` arms, last arm raises TypeError
    g = _find_function("serialization/errors.py", "pred_to_err_message")
    handled: List[str] = []
    else_raises = False
    node = g.body[-1] if g is not None and g.body else None
    shape_ok = g is not None and [a.arg for a in g.args.args] == ["pred"] and \
        all(isinstance(b, ast.Expr) and isinstance(b.value, ast.Constant) for b in g.body[:-1])
    while shape_ok and isinstance(node, ast.If):
        t = node.test
        arm_ok = (isinstance(t, ast.Call) and ast.unparse(t.func) == "isinstance" and len(t.args) == 2
                  and ast.unparse(t.args[0]) == "pred" and isinstance(t.args[1], ast.Name)
                  and isinstance(node.body[-1], ast.Return) and node.body[-1].value is not None
                  and _is_text(node.body[-1].value)
                  and all(RTr().text_only(x) or isinstance(x, ast.Try) for x in node.body[:-1]))
        if not arm_ok:
            handled.append("<unsupported arm: " + ast.unparse(t) + ">")
        else:
            handled.append(t.args[1].id)
        if len(node.orelse) == 1 and isinstance(node.orelse[0], ast.If):
            node = node.orelse[0]
        else:
            else_raises = (len(node.orelse) == 1 and isinstance(node.orelse[0], ast.Raise)
                           and isinstance(node.orelse[0].exc, ast.Call)
                           and ast.unparse(node.orelse[0].exc.func) == "TypeError")
            node = None
    # the argument-failure message renderer of signature.py: pinned statement by statement
    pins: List[str] = []
    for name in MESSAGE_PINS:
        h = _find_function("signature.py", name)
        if h is None:
            pins.append(f"{name}: <not found>")
            continue
        pins.append(f"{name}({ast.unparse(h.args)})")
        pins += [f"{name}: " + ast.unparse(b) for b in h.body
                 if not (isinstance(b, ast.Expr) and isinstance(b.value, ast.Constant))]
    for cls in ("InvalidArgsError", "InvalidReturnError"):
        m = _find_method("signature.py", cls, "__init__")
        pins.append(f"{cls}.__init__: " + (" ; ".join(ast.unparse(b) for b in m.body) if m is not None else "<not found>"))
    lines += ["def messagePins : List String := [" + ",\n  ".join(lstr(x) for x in pins) + "]", ""]
    lines += ["def predToErrMessage : PredMsgSrc :=",
              "  { handled := [" + ", ".join(lstr(h) for h in handled) + "],",
              f"    elseRaisesTypeError := {'true' if else_raises else 'false'} }}", "", "end Koda.Src", ""]
    return "\n".join(lines)


# ---------------------------------------------------------------------------------------------
# generate_schema_predicate (koda_validate/serialization/json_schema.py) -> Koda.GArm (lean/KodaModel/PySchemaPred.lean)

OUT_SCHEMAPRED = os.path.join(os.path.dirname(OUT), "SchemaPredSrc.lean")
GCLS = {"EmailPredicate": "email", "MaxLength": "maxLength", "MinLength": "minLength", "ExactLength": "exactLength",
        "Choices": "choices", "NotBlank": "notBlank", "RegexPredicate": "regex", "StartsWith": "startsWith",
        "EndsWith": "endsWith", "Min": "min", "Max": "max", "EqualTo": "equalTo", "MinKeys": "minKeys", "MaxKeys": "maxKeys",
        "MinItems": "minItems", "MaxItems": "maxItems", "UniqueItems": "uniqueItems", "MultipleOf": "multipleOf",
        "ExactItemCount": "exactItemCount"}
BOUND_TEMPLATE = ["{T} = type(pred.{A})",
                  "if {T} is Decimal:\n    {M} = str(pred.{A})\nelif {T} is date or {T} is datetime:\n"
                  "    {M} = pred.{A}.isoformat()\nelse:\n    {M} = pred.{A}",
                  "if {T} in {{Decimal, date, datetime}}:\n    return {{'{FE}': {M}}} if pred.{E} else {{'{FI}': {M}}}\n"
                  "else:\n    return {{'{KE}': {M}}} if pred.{E} else {{'{KI}': {M}}}"]
SCHEMA_PINS = ["_enum_value", "unhandled_type", "_add_predicate_schema"]


def _gret(cls: str, body: List[ast.stmt], fields: Dict[str, List[str]]) -> str:
    fs = fields.get(cls, [])
    if len(body) == 1 and isinstance(body[0], ast.Return) and isinstance(body[0].value, ast.Dict):
        d = body[0].value
        if not all(isinstance(k, ast.Constant) and isinstance(k.value, str) for k in d.keys):
            return f"(.unsupported {unsupported(d)})"
        keys = [k.value for k in d.keys]
        vals = [ast.unparse(v) for v in d.values]
        if len(keys) == 1 and isinstance(d.values[0], ast.Constant) and isinstance(d.values[0].value, str):
            return f"(.const {lstr(keys[0])} {lstr(d.values[0].value)})"
        if len(keys) == 1 and isinstance(d.values[0], ast.Constant) and d.values[0].value is True:
            return f"(.flagTrue {lstr(keys[0])})"
        if len(fs) == 1 and all(v == f"pred.{fs[0]}" for v in vals) and fs[0] in ("length", "item_count", "size"):
            return "(.attrInt [" + ", ".join(lstr(k) for k in keys) + "])"
        if len(keys) == 1:
            forms = {"[_enum_value(choice) for choice in sorted(pred.choices)]": ("enumSortedChoices", ["choices"]),
                     "pred.pattern.pattern": ("patternSrc", ["pattern"]),
                     "f'^{re.escape(pred.prefix)}'": ("prefixPat", ["prefix"]),
                     "f'{re.escape(pred.suffix)}$'": ("suffixPat", ["suffix"]),
                     "[_enum_value(pred.match)]": ("enumMatch", ["match"])}
            if vals[0] in forms and forms[vals[0]][1] == fs:
                return f"(.{forms[vals[0]][0]} {lstr(keys[0])})"
        return f"(.unsupported {unsupported(d)})"
    if len(body) == 3 and len(fs) == 2:
        try:
            a0, i2 = body[0], body[2]
            T = a0.targets[0].id
            A = a0.value.args[0].attr
            M = body[1].body[0].targets[0].id
            r1, r2 = i2.body[0].value, i2.orelse[0].value
            E = r1.test.attr
            FE, FI = r1.body.keys[0].value, r1.orelse.keys[0].value
            KE, KI = r2.body.keys[0].value, r2.orelse.keys[0].value
            want = [t.format(T=T, A=A, M=M, E=E, FE=FE, FI=FI, KE=KE, KI=KI) for t in BOUND_TEMPLATE]
            if [ast.unparse(b) for b in body] == want and [A, E] == fs:
                return f"(.bound {lstr(KE)} {lstr(KI)} {lstr(FE)} {lstr(FI)})"
        except (AttributeError, IndexError, TypeError):
            pass
    return '(.unsupported "arm body")'


def render_schemapred() -> str:
    lines = ["/- GENERATED by harness/pysrc.py from the current source of /repo/koda_validate — do not edit -/",
             "import KodaModel.PySchemaPred", "", "namespace Koda.Src", ""]
    fields = {name: flds for name, _, _, flds in collect()}
    g = _find_function("serialization/json_schema.py", "generate_schema_predicate")
    arms: List[str] = []
    else_unhandled = False
    body = [b for b in (g.body if g is not None else []) if not (isinstance(b, ast.Expr) and isinstance(b.value, ast.Constant))]
    node = body[0] if g is not None and len(body) == 1 and [a.arg for a in g.args.args] == ["pred"] else None
    if node is None:
        arms.append('{ cls := .other "<signature / body shape>", ret := .unsupported "" }')
    while isinstance(node, ast.If):
        t = node.test
        if (isinstance(t, ast.Call) and ast.unparse(t.func) == "isinstance" and len(t.args) == 2
                and ast.unparse(t.args[0]) == "pred" and isinstance(t.args[1], ast.Name)):
            cn = t.args[1].id
            cls = "." + GCLS[cn] if cn in GCLS else f"(.other {lstr(cn)})"
            arms.append(f"{{ cls := {cls}, ret := {_gret(cn, node.body, fields)} }}")
        else:
            arms.append(f"{{ cls := .other {lstr(ast.unparse(t))}, ret := .unsupported \"test\" }}")
        if len(node.orelse) == 1 and isinstance(node.orelse[0], ast.If):
            node = node.orelse[0]
        else:
            else_unhandled = [ast.unparse(x) for x in node.orelse] == ["unhandled_type(pred)"]
            node = None
    lines += ["def genSchemaPredicate : GenSchemaPredSrc :=", "  { arms := [" + ",\n      ".join(arms) + "],",
              f"    elseUnhandled := {'true' if else_unhandled else 'false'} }}", ""]
    pins: List[str] = []
    for name in SCHEMA_PINS:
        h = _find_function("serialization/json_schema.py", name)
        pins.append(f"{name}: " + (" ; ".join(ast.unparse(b) for b in h.body
                                              if not (isinstance(b, ast.Expr) and isinstance(b.value, ast.Constant)))
                                   if h is not None else "<not found>"))
    lines += ["def schemaPins : List String := [" + ",\n  ".join(lstr(x) for x in pins) + "]", "", "end Koda.Src", ""]
    return "\n".join(lines)


# ---------------------------------------------------------------------------------------------
# pins: functions that are modelled by hand (typehint resolution, validate_signature, schema generation for validators)
# -> lean/KodaModel/Generated/PinsSrc.lean, one string per top-level statement

OUT_PINS = os.path.join(os.path.dirname(OUT), "PinsSrc.lean")
PIN_GROUPS = {
    "resultPins": ("valid.py", ["Valid.map", "Invalid.map"]),
    # the glue every translated `_validate_to_tuple` sits in: the tuple protocol's two bridges, the wrappers the container
    # validators put around their children, the fast-path closure, the two "async-only in sync mode" raisers, the
    # coercer object
    "gluePins": [("_internal.py", ["_ToTupleValidator.__call__", "_ToTupleValidator.validate_async", "_simple_type_validator",
                                   "_async_predicates_warning", "_raise_validate_object_async_in_sync_mode",
                                   "_wrap_sync_validator", "_wrap_async_validator"]),
                 ("coerce.py", ["Coercer.__call__", "coercer"])],
    "typehintPins": ("typehints.py", None),
    "signaturePins": ("signature.py", ["resolve_signature_typehint_default", "_get_validator", "_wrap_fn", "validate_signature"]),
    "schemaValidatorPins": ("serialization/json_schema.py",
                            ["get_base", "string_schema", "bytes_schema", "integer_schema", "decimal_schema", "float_schema",
                             "date_schema", "datetime_schema", "equals_schema", "boolean_schema", "uuid_schema",
                             "array_of_schema", "obj_schema", "dict_validator_schema", "dataclass_validator_schema",
                             "namedtuple_validator_schema", "typeddict_validator_schema", "map_of_schema",
                             "generate_schema_validator", "generate_schema_base", "generate_named_schema_base",
                             "to_named_json_schema", "to_json_schema"]),
}


def _is_overload(f: ast.FunctionDef) -> bool:
    return any(ast.unparse(d) in ("overload", "typing.overload") for d in f.decorator_list)


def collect_pins(group: str) -> List[str]:
    spec = PIN_GROUPS[group]
    if isinstance(spec, list):
        out: List[str] = []
        for fn, names in spec:
            out += _collect_pins_file(fn, names)
        return out
    return _collect_pins_file(*spec)


def _collect_pins_file(fn: str, names) -> List[str]:
    tree = ast.parse(open(os.path.join(PKG, fn)).read())
    fns = [n for n in tree.body if isinstance(n, (ast.FunctionDef, ast.AsyncFunctionDef)) and not _is_overload(n)]
    out: List[str] = []
    for want in (names if names is not None else [f.name for f in fns]):
        if "." in want:
            m = _find_method(fn, *want.split("."))
            hits = [m] if m is not None else []
        else:
            hits = [f for f in fns if f.name == want]
        if len(hits) != 1:
            out.append(f"{want}: <found {len(hits)} times>")
            continue
        f = hits[0]
        out.append(f"{want}({ast.unparse(f.args)})" + "".join(" @" + ast.unparse(d) for d in f.decorator_list))
        out += [f"{want}: " + ast.unparse(b) for b in f.body
                if not (isinstance(b, ast.Expr) and isinstance(b.value, ast.Constant))]
    if names is None:
        # a whole module: module-level assignments count too (tables, aliases)
        out += ["<module>: " + ast.unparse(b) for b in tree.body if isinstance(b, (ast.Assign, ast.AnnAssign))]
    return out


def lean_string_list(xs: List[str], indent: str = "  ") -> str:
    return "[" + (",\n" + indent).join(lstr(x) for x in xs) + "]"


def typehint_simple_arms() -> List[Tuple[List[str], str]]:
    """the leading arms of `get_typehint_validator_base` that test the annotation's identity (directly or through one
    of the two `annotation_is_naked_*` helpers) and return a constructor call without reference to the annotation:
    [(names the annotation is compared with, the returned expression)]"""
    tree = ast.parse(open(os.path.join(PKG, "typehints.py")).read())
    fns = {n.name: n for n in tree.body if isinstance(n, ast.FunctionDef)}
    helpers: Dict[str, List[str]] = {}
    for hn in ("annotation_is_naked_tuple", "annotation_is_naked_list"):
        h = fns.get(hn)
        if h is not None and len(h.body) == 1 and isinstance(h.body[0], ast.Return):
            names = _is_names(h.body[0].value, "annotation")
            if names is not None:
                helpers[hn] = names
    f = fns.get("get_typehint_validator_base")
    out: List[Tuple[List[str], str]] = []
    body = [b for b in (f.body if f is not None else []) if not (isinstance(b, ast.Expr) and isinstance(b.value, ast.Constant))]
    node = body[0] if len(body) == 1 else None
    while isinstance(node, ast.If):
        t = node.test
        names = _is_names(t, "annotation")
        if names is None and isinstance(t, ast.Call) and isinstance(t.func, ast.Name) and t.func.id in helpers \
                and [ast.unparse(a) for a in t.args] == ["annotation"]:
            names = helpers[t.func.id]
        if names is None or len(node.body) != 1 or not isinstance(node.body[0], ast.Return) \
                or "annotation" in ast.unparse(node.body[0]):
            break
        out.append((names, ast.unparse(node.body[0].value)))
        node = node.orelse[0] if len(node.orelse) == 1 else None
    return out


def sigresolver_simple_arms() -> List[Tuple[List[str], str]]:
    """the arms of `resolve_signature_typehint_default`'s top-level chain that test the annotation's identity (directly or
    through `annotation_is_naked_tuple`, as defined in typehints.py) and return an expression that does not mention the
    annotation; the other arms (record classes, the generic tuple forms) are skipped"""
    tree = ast.parse(open(os.path.join(PKG, "typehints.py")).read())
    helpers: Dict[str, List[str]] = {}
    for h in tree.body:
        if isinstance(h, ast.FunctionDef) and h.name == "annotation_is_naked_tuple" and len(h.body) == 1 \
                and isinstance(h.body[0], ast.Return):
            names = _is_names(h.body[0].value, "annotation")
            if names is not None:
                helpers[h.name] = names
    f = _find_function("signature.py", "resolve_signature_typehint_default")
    out: List[Tuple[List[str], str]] = []
    node = f.body[0] if f is not None and f.body and isinstance(f.body[0], ast.If) else None
    while isinstance(node, ast.If):
        t = node.test
        names = _is_names(t, "annotation")
        if names is None and isinstance(t, ast.Call) and isinstance(t.func, ast.Name) and t.func.id in helpers \
                and [ast.unparse(a) for a in t.args] == ["annotation"]:
            names = helpers[t.func.id]
        rets = [b for b in node.body if not isinstance(b, (ast.Import, ast.ImportFrom))]
        if names is not None and len(rets) == 1 and isinstance(rets[0], ast.Return) and "annotation" not in ast.unparse(rets[0]):
            out.append((names, ast.unparse(rets[0].value)))
        node = node.orelse[0] if len(node.orelse) == 1 else None
    return out


def _is_names(e: ast.AST, var: str):
    """`var is A` / `var is A or var is B …` -> [A, B, …] (source text of the right-hand sides); else None"""
    parts = e.values if isinstance(e, ast.BoolOp) and isinstance(e.op, ast.Or) else [e]
    names = []
    for p in parts:
        if not (isinstance(p, ast.Compare) and len(p.ops) == 1 and isinstance(p.ops[0], ast.Is)
                and ast.unparse(p.left) == var):
            return None
        names.append(ast.unparse(p.comparators[0]))
    return names


def render_pins() -> str:
    lines = ["/- GENERATED by harness/pysrc.py from the current source of /repo/koda_validate — do not edit -/", "",
             "namespace Koda.Src", ""]
    for group in PIN_GROUPS:
        lines += [f"def {group} : List String := {lean_string_list(collect_pins(group))}", ""]
    lines += ["/-- the identity-tested arms of `resolve_signature_typehint_default` (signature.py), wherever they stand in its chain -/",
              "def sigResolverSimpleArms : List (List String × String) := [" +
              ",\n  ".join("([" + ", ".join(lstr(n) for n in ns) + "], " + lstr(r) + ")" for ns, r in sigresolver_simple_arms()) + "]", ""]
    lines += ["/-- the identity-tested arms of `get_typehint_validator_base`: (what the annotation is compared with, what is returned) -/",
              "def typehintSimpleArms : List (List String × String) := [" +
              ",\n  ".join("([" + ", ".join(lstr(n) for n in ns) + "], " + lstr(r) + ")" for ns, r in typehint_simple_arms()) + "]", ""]
    lines += ["end Koda.Src", ""]
    return "\n".join(lines)


def render() -> str:
    found = collect()
    lines = ["/- GENERATED by harness/pysrc.py from the current source of /repo/koda_validate — do not edit -/",
             "import KodaModel.PyExpr", "", "namespace Koda.Src", "",
             "/-- `__call__` of every Predicate / Processor subclass defined in the package, translated -/",
             "def calls : List (String × PStmt) := ["]
    lines.append(",\n".join(f"  ({lstr(n)}, {t})" for n, _, t, _ in found))
    lines += ["]", "",
              "/-- the classes found, with their kind and dataclass fields -/",
              "def classes : List (String × String × List String) := ["]
    lines.append(",\n".join(f"  ({lstr(n)}, {lstr(k)}, [{', '.join(lstr(f) for f in fs)}])" for n, k, _, fs in found))
    lines += ["]", "", "/-- default pattern of EmailPredicate -/", f"def emailPattern : String := {lstr(email_pattern())}", "",
              "end Koda.Src", ""]
    return "\n".join(lines)


def regenerate() -> bool:
    changed = False
    for path, new in ((OUT, render()), (OUT_COERCE, render_coerce()), (OUT_SCALAR, render_scalar()), (OUT_UNION, render_union()), (OUT_LIST, render_list()), (OUT_WRAP, render_wrap()), (OUT_EQ, render_eq()), (OUT_CACHE, render_cache()), (OUT_SEQ, render_seq()), (OUT_NTUPLE, render_ntuple()), (OUT_MAP, render_map()), (OUT_DICTANY, render_dictany()), (OUT_CONGR, render_congr()), (OUT_RENDER, render_render()), (OUT_SCHEMAPRED, render_schemapred()), (OUT_PINS, render_pins())):
        old = open(path).read() if os.path.exists(path) else None
        if new != old:
            with open(path, "w") as f:
                f.write(new)
            changed = True
    return changed


if __name__ == "__main__":
    print(render())
    print(render_coerce())
