"""Translator: the `__call__` body of every built-in Predicate / Processor class in /repo's *current* source
-> a term of `Koda.PStmt` (lean/KodaModel/PyExpr.lean), written to lean/KodaModel/Generated/PredSrc.lean on every
run.  `Properties/C15Src.lean` proves each translated body equal to the model's `PredK.call` / `ProcK.call`."""
from __future__ import annotations

import ast
import os
from typing import Dict, List, Tuple

REPO = os.environ.get("KODA_REPO", "/repo")
PKG = os.path.join(REPO, "koda_validate")
OUT = os.path.join(os.path.dirname(os.path.dirname(os.path.abspath(__file__))), "lean", "KodaModel", "Generated",
                   "PredSrc.lean")

CMP = {ast.Lt: "lt", ast.LtE: "le", ast.Gt: "gt", ast.GtE: "ge", ast.Eq: "eq", ast.NotEq: "ne", ast.In: "isin",
       ast.IsNot: "isNot"}


def lstr(s: str) -> str:
    return '"' + s.replace("\\", "\\\\").replace('"', '\\"').replace("\n", "\\n") + '"'


def unsupported(node: ast.AST) -> str:
    return f"(.unsupported {lstr(ast.dump(node)[:120])})"


class Tr:
    def __init__(self, self_name: str, val_name: str):
        self.self_name = self_name
        self.val_name = val_name

    def exp(self, e: ast.expr) -> str:
        if isinstance(e, ast.Name) and e.id == self.val_name:
            return ".val"
        if isinstance(e, ast.Attribute) and isinstance(e.value, ast.Name) and e.value.id == self.self_name:
            return f"(.self {lstr(e.attr)})"
        if isinstance(e, ast.Constant):
            if e.value is None:
                return ".noneLit"
            if isinstance(e.value, int) and not isinstance(e.value, bool):
                return f"(.int ({e.value}))"
            return unsupported(e)
        if isinstance(e, ast.Compare) and len(e.ops) == 1 and type(e.ops[0]) in CMP:
            return f"(.cmp .{CMP[type(e.ops[0])]} {self.exp(e.left)} {self.exp(e.comparators[0])})"
        if isinstance(e, ast.BinOp) and isinstance(e.op, ast.Mod):
            return f"(.mod {self.exp(e.left)} {self.exp(e.right)})"
        if isinstance(e, ast.Call) and not e.keywords:
            if isinstance(e.func, ast.Name) and e.func.id == "len" and len(e.args) == 1:
                return f"(.len {self.exp(e.args[0])})"
            if isinstance(e.func, ast.Attribute):
                if len(e.args) == 0:
                    return f"(.meth0 {self.exp(e.func.value)} {lstr(e.func.attr)})"
                if len(e.args) == 1:
                    return f"(.meth1 {self.exp(e.func.value)} {lstr(e.func.attr)} {self.exp(e.args[0])})"
        return unsupported(e)

    def stmts(self, body: List[ast.stmt]) -> str:
        body = [s for s in body if not (isinstance(s, ast.Expr) and isinstance(s.value, ast.Constant))]  # docstring
        if len(body) == 1 and isinstance(body[0], ast.Return) and body[0].value is not None:
            return f"(.ret {self.exp(body[0].value)})"
        if len(body) == 1 and isinstance(body[0], ast.If) and body[0].orelse:
            s = body[0]
            return f"(.ite {self.exp(s.test)} {self.stmts(s.body)} {self.stmts(s.orelse)})"
        if len(body) == 2 and isinstance(body[0], ast.If) and not body[0].orelse:
            # `if c: return a` followed by `return b`
            s = body[0]
            return f"(.ite {self.exp(s.test)} {self.stmts(s.body)} {self.stmts(body[1:])})"
        # outside the subset: the whole body, as its AST dump, is the translation (a pin: any change to it changes
        # the generated term)
        return f"(.unsupported {lstr(' ; '.join(ast.dump(b) for b in body))})"


def base_names(c: ast.ClassDef) -> List[str]:
    out = []
    for b in c.bases:
        if isinstance(b, ast.Subscript):
            b = b.value
        if isinstance(b, ast.Name):
            out.append(b.id)
        elif isinstance(b, ast.Attribute):
            out.append(b.attr)
    return out


def collect() -> List[Tuple[str, str, str, List[str]]]:
    """[(class name, 'Predicate' | 'Processor', PStmt term, dataclass field names)] in a stable order"""
    found = []
    for fn in sorted(os.listdir(PKG)):
        if not fn.endswith(".py"):
            continue
        tree = ast.parse(open(os.path.join(PKG, fn)).read())
        for node in tree.body:
            if not isinstance(node, ast.ClassDef):
                continue
            bases = base_names(node)
            kind = "Predicate" if "Predicate" in bases else "Processor" if "Processor" in bases else None
            if kind is None:
                continue
            call = None
            fields = []
            for item in node.body:
                if isinstance(item, ast.FunctionDef) and item.name == "__call__":
                    call = item
                if isinstance(item, ast.AnnAssign) and isinstance(item.target, ast.Name):
                    ann = ast.unparse(item.annotation)
                    if not ann.startswith("ClassVar"):
                        fields.append(item.target.id)
            if call is None:
                term = '(.unsupported "no synchronous __call__")'
            else:
                args = [a.arg for a in call.args.args]
                if len(args) != 2 or call.args.vararg or call.args.kwarg or call.args.kwonlyargs or call.decorator_list:
                    term = '(.unsupported "signature of __call__")'
                else:
                    term = Tr(args[0], args[1]).stmts(call.body)
            found.append((node.name, kind, term, fields))
    found.sort()
    return found


def email_pattern() -> str:
    tree = ast.parse(open(os.path.join(PKG, "string.py")).read())
    for node in tree.body:
        if isinstance(node, ast.ClassDef) and node.name == "EmailPredicate":
            for item in node.body:
                if isinstance(item, ast.AnnAssign) and isinstance(item.target, ast.Name) and item.target.id == "pattern":
                    v = item.value
                    if (isinstance(v, ast.Call) and ast.unparse(v.func) == "re.compile" and len(v.args) == 1
                            and not v.keywords and isinstance(v.args[0], ast.Constant) and isinstance(v.args[0].value, str)):
                        return v.args[0].value
                    return "<not a plain re.compile(literal)>: " + ast.unparse(v) if v is not None else "<no default>"
    return "<class EmailPredicate not found>"


def render() -> str:
    found = collect()
    lines = ["/- GENERATED by harness/pysrc.py from the current source of /repo/koda_validate — do not edit -/",
             "import KodaModel.PyExpr", "", "namespace Koda.Src", "",
             "/-- `__call__` of every Predicate / Processor subclass defined in the package, translated -/",
             "def calls : List (String × PStmt) := ["]
    lines.append(",\n".join(f"  ({lstr(n)}, {t})" for n, _, t, _ in found))
    lines += ["]", "",
              "/-- the classes found, with their kind and dataclass fields -/",
              "def classes : List (String × String × List String) := ["]
    lines.append(",\n".join(f"  ({lstr(n)}, {lstr(k)}, [{', '.join(lstr(f) for f in fs)}])" for n, k, _, fs in found))
    lines += ["]", "", "/-- default pattern of EmailPredicate -/", f"def emailPattern : String := {lstr(email_pattern())}", "",
              "end Koda.Src", ""]
    return "\n".join(lines)


def regenerate() -> bool:
    new = render()
    old = open(OUT).read() if os.path.exists(OUT) else None
    if new != old:
        with open(OUT, "w") as f:
            f.write(new)
        return True
    return False


if __name__ == "__main__":
    print(render())
