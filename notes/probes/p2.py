import asyncio, dataclasses, traceback, datetime, uuid, json
from typing import *
from decimal import Decimal
from koda_validate import *
from koda_validate.maybe import MaybeValidator
from koda_validate.serialization import to_json_schema, to_serializable_errs, to_named_json_schema
from koda_validate.signature import validate_signature, InvalidArgsError, InvalidReturnError
from koda import Just, nothing, Maybe

def t(label, f):
    try:
        r = f()
        print(label, '->', repr(r)[:400])
    except BaseException as e:
        print(label, 'RAISED', type(e).__name__, str(e)[:300])
run = asyncio.run
# C06
v = NTupleValidator.untyped(fields=(IntValidator(),))
x=[1,2]
a = v(x); b = run(v.validate_async(x))
print('C06 ntuple', a.value, b.value, a==b)
class TD(TypedDict):
    a: int
co = Coercer(lambda v: Just(dict(v)) if isinstance(v, list) else nothing, {list})
v = TypedDictValidator(TD, coerce=co, fail_on_unknown_keys=True)
x=[('a',1),('b',2)]
a = v(x); b = run(v.validate_async(x))
print('C06 td', a.value, b.value, a==b)

# C08
@validate_signature
def f(a: int, /, **kw: str):
    return ('ran', a, kw)
t('C08 posonly kw clash', lambda: f(1, a=5))
@validate_signature
def g(a: int, b: str = 'x', *args: int, c: int, **kw: str):
    return ('ran', a, b, args, c, kw)
t('C08 ok', lambda: g(1, 'y', 2, 3, c=4, d='e'))
t('C08 bad varargs', lambda: g(1, 'y', 2, 'bad', 3, 'bad2', c=4, d='e'))
try:
    g(1, 'y', 2, 'bad', 3, 'bad2', c=4, d=5)
except InvalidArgsError as e:
    print('C08 errs keys', list(e.errs.keys()), e.errs['args'])
# C09
@validate_signature
def h(a: Annotated[str, StringValidator(preprocessors=[strip])], *, b: Annotated[str, StringValidator(preprocessors=[strip])]):
    return (a, b)
t('C09 sync noret', lambda: h(' a ', b=' b '))
t('C09 sync noret kw', lambda: h(a=' a ', b=' b '))
@validate_signature
async def ha(a: Annotated[str, StringValidator(preprocessors=[strip])], *, b: Annotated[str, StringValidator(preprocessors=[strip])]):
    "doc"
    return (a, b)
t('C09 async noret', lambda: run(ha(' a ', b=' b ')))
print('C09 wraps', h.__name__, ha.__name__, ha.__doc__, asyncio.iscoroutinefunction(ha))
@validate_signature
async def hb(a: Annotated[str, StringValidator(preprocessors=[strip])], *, b: Annotated[str, StringValidator(preprocessors=[strip])]) -> Any:
    return (a, b)
t('C09 async ret', lambda: run(hb(' a ', b=' b ')))

# C10
t('C10 choices bytes', lambda: json.dumps(to_json_schema(BytesValidator(Choices({b'a'})))))
t('C10 choices decimal', lambda: json.dumps(to_json_schema(DecimalValidator(Choices({Decimal(1)})))))
t('C10 startswith bytes', lambda: to_json_schema(BytesValidator(StartsWith(b'a'))))
t('C10 min float nan', lambda: json.dumps(to_json_schema(FloatValidator(Min(float('nan')))), allow_nan=False))
t('C10 equals float inf', lambda: json.dumps(to_json_schema(EqualsValidator(float('inf'))), allow_nan=False))
t('C10 equals bytes nonutf8', lambda: to_json_schema(EqualsValidator(b'\xff')))
t('C10 choices mixed', lambda: to_json_schema(StringValidator(Choices({1,'a'}))))
t('C10 multipleof', lambda: to_json_schema(IntValidator(MultipleOf(2))))
t('C10 exactitemcount', lambda: to_json_schema(ListValidator(IntValidator(), predicates=[ExactItemCount(2)])))
t('C10 none', lambda: to_json_schema(none_validator))
t('C10 alwaysvalid', lambda: to_json_schema(always_valid))
t('C10 set', lambda: to_json_schema(SetValidator(IntValidator())))
t('C10 maybe', lambda: to_json_schema(MaybeValidator(IntValidator())))
t('C10 typevalidator', lambda: to_json_schema(TypeValidator(int)))
t('C10 optional-of-union', lambda: to_json_schema(OptionalValidator(UnionValidator(IntValidator(), StringValidator()))))
t('C10 min date', lambda: to_json_schema(DateValidator(Min(datetime.date(2020,1,1)))))
t('C10 regex bytes?', lambda: to_json_schema(StringValidator(RegexPredicate(__import__('re').compile('a+')))))
t('C10 ntuple', lambda: to_json_schema(NTupleValidator.untyped(fields=(IntValidator(),))))
t('C10 lazy unnamed', lambda: to_json_schema(Lazy(lambda: IntValidator())))
t('C10 equals None', lambda: to_json_schema(EqualsValidator(None)))
from jsonschema import Draft202012Validator
t('C10 ntuple check', lambda: Draft202012Validator.check_schema(to_json_schema(NTupleValidator.untyped(fields=(IntValidator(),)))))
t('C10 negative minlength', lambda: Draft202012Validator.check_schema(to_json_schema(StringValidator(MinLength(-1)))))
t('C10 bad regex', lambda: Draft202012Validator.check_schema(to_json_schema(StringValidator(RegexPredicate(__import__('re').compile('(?P<a>x)'))))))
t('C10 record int key', lambda: to_json_schema(RecordValidator(into=lambda a: a, keys=((1, IntValidator()),))))
t('C10 min bool?', lambda: to_json_schema(IntValidator(Min(True))))
