import asyncio, dataclasses, datetime, json, re
from typing import *
from decimal import Decimal
from koda_validate import *
from koda_validate.maybe import MaybeValidator
from koda_validate.is_type import TypeValidator
from koda_validate.serialization import to_json_schema, to_serializable_errs
from koda_validate.signature import _get_arg_fail_message
from koda import Just, nothing, Maybe
def t(label, f):
    try:
        r = f(); print(label, '->', repr(r)[:300])
    except BaseException as e:
        print(label, 'RAISED', type(e).__name__, str(e)[:300])
t('uniontype name', lambda: (int|str).__name__)
t('C12 coercer uniontype', lambda: to_serializable_errs(IntValidator(coerce=Coercer(lambda v: nothing, {int|str}))(1)))
t('C12 typevalidator uniontype', lambda: to_serializable_errs(Invalid(TypeErr(int|str), 1, IntValidator())))
# ordering of KeyErrs: follows declared key order
v = DictValidatorAny({'a': IntValidator(), 'b': IntValidator(), 'c': KeyNotRequired(IntValidator())}, fail_on_unknown_keys=True)
print(v({'b': 'x'}))
print(v({'b': 'x', 'z': 1}))
# record into called with nothing for absent optional
v = RecordValidator(into=lambda *a: a, keys=(('a', IntValidator()), ('b', KeyNotRequired(IntValidator())), ('c', KeyNotRequired(IntValidator()))))
print(v({'a': 1, 'c': 3}), asyncio.run(v.validate_async({'a': 1, 'c': 3})))
# validate_object falsy err (e.g. returns empty SerializableErr?) -> `and (result := ...)` truthiness!
from koda_validate.serialization import SerializableErr
class FalsyErr(ValidationErrBase):
    def __bool__(self): return False
v = DictValidatorAny({}, validate_object=lambda d: FalsyErr())
print('C04 falsy err', v({}))
v = NTupleValidator.untyped(fields=(), validate_object=lambda d: FalsyErr())
print('C04 ntuple falsy err', v(()))
# dataclass truthiness: errs types are dataclasses → truthy by default. PredicateErrs([]) truthy.
# Optional none coercer
# set validator order of item_errs
print(SetValidator(IntValidator())({'a', 'b', 1}))
# map merging
print(MapValidator(key=StringValidator(preprocessors=[strip]), value=IntValidator())({' a': 1, 'a': 2, 'a ': 3}))
# cache
class C(CacheValidatorBase):
    def __init__(self, v):
        super().__init__(v); self.d = {}
    def cache_get_sync(self, val): return Just(self.d[val]) if val in self.d else nothing
    def cache_set_sync(self, val, r): self.d[val] = r
c = C(IntValidator())
print('C20', c(1), c(True), c(1.0))
