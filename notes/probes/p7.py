import asyncio, dataclasses, traceback, datetime, uuid, json, re
from typing import *
from decimal import Decimal
from koda_validate import *
from koda_validate.maybe import MaybeValidator
from koda_validate.is_type import TypeValidator
from koda_validate.typehints import get_typehint_validator
from koda import Just, nothing, Maybe

def t(label, f):
    try:
        r = f()
        print(label, '->', repr(r)[:400])
    except BaseException as e:
        print(label, 'RAISED', type(e).__name__, str(e)[:300])
run = asyncio.run
t('C01 dec big mod', lambda: DecimalValidator(MultipleOf(Decimal(3)))('1e50'))
t('C01 dec snan eq', lambda: EqualsValidator(Decimal('1'))(Decimal('sNaN')))
t('C01 dec snan choices', lambda: DecimalValidator(Choices({Decimal(1)}))(Decimal('sNaN')))
t('C01 dec nan choices', lambda: DecimalValidator(Choices({Decimal(1)}))(Decimal('NaN')))
t('C01 dec nan max', lambda: DecimalValidator(Max(Decimal(1)))(Decimal('NaN')))
t('C01 float nan min', lambda: FloatValidator(Min(1.0))(float('nan')))
t('C01 float multipleof 0', lambda: FloatValidator(MultipleOf(0.0))(1.0))
t('C01 int huge multipleof float?', lambda: IntValidator(MultipleOf(3))(10**400))
t('C01 int min float', lambda: IntValidator(Min(1.5))(10**400))
t('C01 int min nan', lambda: IntValidator(Min(float('inf')))(10**400))
t('C01 int multipleof float', lambda: IntValidator(MultipleOf(0.5))(10**400))
t('C01 set unhashable payload', lambda: SetValidator(always_valid, coerce=Coercer(lambda v: Just(v), {list}))([[1]]))
t('C01 map unhashable key payload', lambda: MapValidator(key=always_valid, value=always_valid, coerce=Coercer(lambda v: Just(v), {list}))([[1]]))
t('C01 list coercer returns nonlist', lambda: ListValidator(always_valid, coerce=Coercer(lambda v: Just(5), {int}))(5))
t('C01 uniqueitems weird eq', lambda: ListValidator(always_valid, predicates=[unique_items])([float('nan'), {1:2}, [1], [1]]))
t('C01 str surrogates strip', lambda: StringValidator(not_blank, preprocessors=[strip, upper_case])('\ud800'))
t('C01 date min', lambda: DateValidator(Min(datetime.date(2020,1,1)))('0001-01-01'))
t('C01 datetime naive/aware compare', lambda: DatetimeValidator(Min(datetime.datetime(2020,1,1)))('2020-01-01T00:00:00+00:00'))
t('C01 datetime equals naive/aware', lambda: EqualsValidator(datetime.datetime(2020,1,1))(datetime.datetime(2020,1,1,tzinfo=datetime.timezone.utc)))
t('C01 ntuple validate_object', lambda: NTupleValidator.untyped(fields=(IntValidator(),), validate_object=lambda t: None)((1,)))
class NT(NamedTuple):
    a: int
t('C01 nt extra _asdict', lambda: NamedTupleValidator(NT)(NT('x')))
t('C01 typed dict Required', lambda: get_typehint_validator(TypedDict('X', {'a': Required[int], 'b': NotRequired[int]}))({'a':1}))
t('C07 annotated no validator', lambda: get_typehint_validator(Annotated[int, 'x']))
t('C07 literal enum', lambda: get_typehint_validator(Literal[1, 'a'])('a'))
t('C07 tuple empty', lambda: get_typehint_validator(Tuple[()])(()))
t('C07 frozenset', lambda: get_typehint_validator(FrozenSet[int]))
t('C07 frozenset naked', lambda: get_typehint_validator(frozenset)(frozenset()))
t('C07 union nested optional', lambda: get_typehint_validator(Optional[Union[int,str]]))
t('C07 maybe', lambda: get_typehint_validator(Maybe[int]))
t('C07 list[Any]', lambda: get_typehint_validator(List[Any])([1,'a']))
@dataclasses.dataclass
class P:
    name: str
    tags: List[str] = dataclasses.field(default_factory=list)
t('C07 dc default factory', lambda: get_typehint_validator(P)({'name':'x'}))
t('C07 dc inst payload eq', lambda: get_typehint_validator(P)(P('x',['a'])))
# dataclass instance with extra attribute + fail_on_unknown
p = P('x'); p.extra = 1
t('C04 dc extra attr', lambda: DataclassValidator(P, fail_on_unknown_keys=True)(p))
# dataclass with non-str keys in dict input
t('C04 dc non-str key', lambda: DataclassValidator(P, fail_on_unknown_keys=True)({1: 2}))
t('C04 dc non-str key2', lambda: DataclassValidator(P)({1: 2, 'name':'x'}))
# InitVar / ClassVar
@dataclasses.dataclass
class Q:
    a: int
    c: ClassVar[int] = 3
t('C07 dc classvar', lambda: DataclassValidator(Q)({'a':1}))
