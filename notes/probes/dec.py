# Candidate model semantics for Decimal ordered comparison, ==, hash-ability and `% == 0` under the default context,
# checked against the real decimal module on a bounded domain.
import decimal, itertools
from decimal import Decimal as D
from fractions import Fraction as F
PREC = 28
def parts(d):
    if d.is_snan(): return ('snan',)
    if d.is_qnan(): return ('nan',)
    if d.is_infinite(): return ('inf', d.is_signed())
    s, digs, e = d.as_tuple()
    c = int(''.join(map(str, digs))) if digs else 0
    return ('fin', s, c, e)
def val(p): return F(p[2]) * (F(10) ** p[3]) * (-1 if p[1] else 1)
def adjusted(p):  # exponent of most significant digit
    return len(str(p[2])) - 1 + p[3]
def m_lt(a, b):  # a < b ; returns bool or 'raise'
    if a[0] in ('nan','snan') or b[0] in ('nan','snan'): return 'raise'
    def key(p):
        if p[0]=='inf': return (-1 if p[1] else 1, 0)
        return (0, val(p))
    return key(a) < key(b)
def m_eq(a, b):
    if a[0]=='snan' or b[0]=='snan': return 'raise'
    if a[0]=='nan' or b[0]=='nan': return False
    if a[0]=='inf' or b[0]=='inf': return a==b
    return val(a)==val(b)
def m_modzero(a, b):  # (a % b == 0), b != 0
    if a[0]=='snan' or b[0]=='snan': return 'raise'
    if a[0]=='nan' or b[0]=='nan': return False      # NaN % x -> NaN ; NaN == 0 False
    if a[0]=='inf': return 'raise'
    if b[0]=='inf': return val(a)==0                  # x % inf -> x
    if a[2]==0: return True
    expdiff = adjusted(a) - adjusted(b)
    if expdiff <= -2: return False
    if expdiff > PREC: return 'raise'
    q = abs(val(a)) // abs(val(b))
    if q >= 10**PREC: return 'raise'
    return (abs(val(a)) - q*abs(val(b))) == 0
def real(f):
    try: return f()
    except (decimal.InvalidOperation, TypeError): return 'raise'
pool = [D(x) for x in ['NaN','sNaN','Infinity','-Infinity','0','-0','0.0','1','-1','1.0','3','0.3','1e28','1e29','1e27','3e-2','1e50','7e-30','9999999999999999999999999999','99999999999999999999999999999','12','-12.5','2.5','1E+3','1000']]
bad=0;n=0
for a,b in itertools.product(pool, pool):
    pa,pb=parts(a),parts(b)
    for name, mf, rf in [('lt', m_lt, lambda: a<b), ('eq', m_eq, lambda: a==b)]:
        n+=1
        if mf(pa,pb)!=real(rf): bad+=1; print('MISMATCH',name,a,b,mf(pa,pb),real(rf))
    if not (pb[0]=='fin' and pb[2]==0):
        n+=1
        if m_modzero(pa,pb)!=real(lambda: a % b == 0): bad+=1; print('MISMATCH mod',a,b,m_modzero(pa,pb),real(lambda: a % b == 0))
print('checked',n,'bad',bad)
for d in pool:
    print(d, real(lambda: hash(d)) if d.is_snan() else 'hashable', end='; ')
