import asyncio, dataclasses, traceback, datetime, uuid, json, re
from typing import *
from decimal import Decimal
from koda_validate import *
from koda_validate.maybe import MaybeValidator
from koda_validate.is_type import TypeValidator
from koda_validate.serialization import to_json_schema, to_serializable_errs, to_named_json_schema
from koda_validate.signature import validate_signature, InvalidArgsError, InvalidReturnError, _get_arg_fail_message
from koda import Just, nothing, Maybe

def t(label, f):
    try:
        r = f()
        print(label, '->', repr(r)[:400])
    except BaseException as e:
        print(label, 'RAISED', type(e).__name__, str(e)[:300])
run = asyncio.run
# C12
t('C12 maybe typeerr', lambda: to_serializable_errs(MaybeValidator(IntValidator())(5)))
t('C12 maybe typeerr msg', lambda: _get_arg_fail_message(MaybeValidator(IntValidator())(5)))
t('C12 maybe container', lambda: to_serializable_errs(MaybeValidator(IntValidator())(Just('x'))))
t('C12 maybe container msg', lambda: _get_arg_fail_message(MaybeValidator(IntValidator())(Just('x'))))
t('C12 choices mixed', lambda: to_serializable_errs(UnionValidator(StringValidator(Choices({'a'})), IntValidator(Choices({1})))(2)))
t('C12 choices bool', lambda: to_serializable_errs(BoolValidator(Choices({True}))(False)))
t('C12 choices bytes', lambda: json.dumps(to_serializable_errs(BytesValidator(Choices({b'a'}))(b'b'))))
t('C12 min decimal', lambda: json.dumps(to_serializable_errs(DecimalValidator(Min(Decimal(3)))(1))))
t('C12 multipleof', lambda: json.dumps(to_serializable_errs(IntValidator(MultipleOf(3))(1))))
t('C12 nonevalidator', lambda: json.dumps(to_serializable_errs(none_validator(1))))
t('C12 typevalidator', lambda: json.dumps(to_serializable_errs(TypeValidator(Decimal)(1))))
t('C12 set type', lambda: json.dumps(to_serializable_errs(SetValidator(IntValidator())(1))))
t('C12 set member', lambda: json.dumps(to_serializable_errs(SetValidator(IntValidator())({'a'}))))
t('C12 map', lambda: json.dumps(to_serializable_errs(MapValidator(key=StringValidator(), value=IntValidator())({1:'a', 'b': 'c'}))))
t('C12 map colliding str keys', lambda: json.dumps(to_serializable_errs(MapValidator(key=StringValidator(), value=IntValidator())({1:'a', '1': 'c'}))))
t('C12 set coercion', lambda: json.dumps(to_serializable_errs(SetValidator(IntValidator(), coerce=Coercer(lambda v: nothing, {list}))(1))))
t('C12 ntuple coercion', lambda: json.dumps(to_serializable_errs(NTupleValidator.untyped(fields=(IntValidator(),))(1))))
t('C12 ntuple arity', lambda: json.dumps(to_serializable_errs(NTupleValidator.untyped(fields=(IntValidator(),))([1,2]))))
class TD(TypedDict):
    a: int
t('C12 td extra', lambda: json.dumps(to_serializable_errs(TypedDictValidator(TD, fail_on_unknown_keys=True)({'a':1, 'b':2}))))
t('C12 extrakeys msg mixed', lambda: _get_arg_fail_message(DictValidatorAny({1: IntValidator(), 'a': IntValidator()}, fail_on_unknown_keys=True)({2:1})))
t('C12 extrakeys ser mixed', lambda: to_serializable_errs(DictValidatorAny({1: IntValidator(), 'a': IntValidator()}, fail_on_unknown_keys=True)({2:1})))
t('C12 equals bytes', lambda: json.dumps(to_serializable_errs(EqualsValidator(b'a')(b'b'))))
t('C12 regex', lambda: json.dumps(to_serializable_errs(StringValidator(RegexPredicate(re.compile('a')))('b'))))
t('C12 uniformtuple typeerr', lambda: json.dumps(to_serializable_errs(UniformTupleValidator(IntValidator(), coerce=None)(1))))
t('C12 date typeerr', lambda: json.dumps(to_serializable_errs(DateValidator(coerce=None)(1))))
t('C12 min date pred', lambda: json.dumps(to_serializable_errs(DateValidator(Min(datetime.date(2020,1,1)))('2019-01-01'))))
t('C12 custom coercer int', lambda: json.dumps(to_serializable_errs(IntValidator(coerce=Coercer(lambda v: nothing, {str}))(1))))
t('C12 coercer union-type compat', lambda: json.dumps(to_serializable_errs(IntValidator(coerce=Coercer(lambda v: nothing, {Optional[str]}))(1))))
t('C12 typevalidator generic alias', lambda: json.dumps(to_serializable_errs(TypeValidator(List[int])(1))))
t('C12 nextlevel', lambda: to_serializable_errs(DictValidatorAny({'a': IntValidator()})({'a': 'x'}), lambda inv: 'NL'))
t('C12 nextlevel idx', lambda: to_serializable_errs(ListValidator(IntValidator())(['x']), lambda inv: 'NL'))
t('C12 dataclass coercion err', lambda: to_serializable_errs(TypedDictValidator(TD, coerce=Coercer(lambda v: nothing, {list}))(1)))
t('C12 msg ValidationErrBase', lambda: _get_arg_fail_message(DictValidatorAny({}, validate_object=lambda d: ValidationErrBase())({})))
t('C12 ser ValidationErrBase', lambda: to_serializable_errs(DictValidatorAny({}, validate_object=lambda d: ValidationErrBase())({})))
