import asyncio, dataclasses, traceback, datetime, uuid, json, re
from typing import *
from decimal import Decimal
from koda_validate import *
from koda_validate.maybe import MaybeValidator
from koda_validate.is_type import TypeValidator
from koda import Just, nothing, Maybe

def t(label, f):
    try:
        r = f()
        print(label, '->', repr(r)[:400])
    except BaseException as e:
        print(label, 'RAISED', type(e).__name__, str(e)[:300])
run = asyncio.run
# C15
print('C15 unique', unique_items([1, True, 1.0]), unique_items([[1],[1]]), unique_items([[1],[True]]), unique_items([{1},{1}]), unique_items([float('nan'), float('nan')]))
nan = float('nan')
print('C15 unique same nan obj', unique_items([nan, nan]))
print('C15 multipleof', MultipleOf(3)(0), MultipleOf(3)(-3), MultipleOf(0.1)(0.3), MultipleOf(-2)(4))
print('C15 notblank bytes', not_blank(b' \t'), not_blank(b' a'), not_blank(' '), not_blank(b'\x1c'), not_blank('\x1c'))
print('C15 startswith', StartsWith('')('a'), EndsWith('')(''))
print('C15 min types', Min(1)(True), type(Min(1)(1)))
print('C15 regex', RegexPredicate(re.compile('a'))('ab'), RegexPredicate(re.compile('a'))('ba'))
print('C15 strip bytes', strip(b' a '), upper_case(b'a'), lower_case('ß'), upper_case('ß'))
print('C15 choices', Choices({1})(True), Choices({1})(1.0))
# C16
for x in ['1', ' 1 ', '1_0', '١', '1e3', 'Infinity', '-0', 'nan', '', '1.', '.5', '+.5e-3', 1, True, 1.0, b'1', None, Decimal('1')]:
    r = DecimalValidator()(x)
    try:
        d = Decimal(x) if isinstance(x,(str,int,Decimal)) else None
    except Exception as e: d = 'ERR'
    print('C16 dec', repr(x), r.val if r.is_valid else 'INV', d)
class DecSub(Decimal): pass
t('C16 decsub', lambda: DecimalValidator()(DecSub(1)))
for x in ['12345678123456781234567812345678', '{12345678-1234-5678-1234-567812345678}', 'urn:uuid:12345678-1234-5678-1234-567812345678', '12345678-1234-5678-1234-56781234567', b'\x00'*16, 5]:
    t(f'C16 uuid {x!r}', lambda: UUIDValidator()(x))
for x in ['2020-01-01', '20200101', '2020-W01-1', '2020-01-01T00:00:00', ' 2020-01-01', '0001-01-01', '9999-12-31', datetime.datetime(2020,1,1), datetime.date(2020,1,1)]:
    t(f'C16 date {x!r}', lambda: DateValidator()(x))
for x in ['2020-01-01', '20200101T000000', '2020-01-01T00:00:00.123456+05:30', '2020-01-01 00:00:00Z', '2020-01-01T24:00:00', datetime.date(2020,1,1)]:
    t(f'C16 datetime {x!r}', lambda: DatetimeValidator()(x))
class TS(tuple): pass
class LS(list): pass
t('C16 tuple sub', lambda: UniformTupleValidator(always_valid)(TS((1,))))
t('C16 list sub', lambda: UniformTupleValidator(always_valid)(LS((1,))))
t('C16 tuple err', lambda: UniformTupleValidator(always_valid)(1))
t('C16 ntuple err', lambda: NTupleValidator.untyped(fields=())(1))
# fold
d = datetime.datetime(2020,1,1,fold=1)
r = DatetimeValidator()(d.isoformat())
print('C16 fold', r.val == d, r.val.fold, d.fold)
