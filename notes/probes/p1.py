import asyncio, dataclasses, traceback
from typing import *
from decimal import Decimal
from koda_validate import *
from koda_validate.serialization import to_json_schema, to_serializable_errs, to_named_json_schema
from koda import Just, nothing, Maybe

def t(label, f):
    try:
        r = f()
        print(label, '->', repr(r)[:300])
    except BaseException as e:
        print(label, 'RAISED', type(e).__name__, str(e)[:200])

# C01: slots dataclass
@dataclasses.dataclass(slots=True)
class S:
    a: int
t('C01 slots dc', lambda: DataclassValidator(S)(S(1)))
t('C01 slots dc dict', lambda: DataclassValidator(S)({'a':1}))
# dataclass with init=False field
@dataclasses.dataclass
class I:
    a: int
    b: int = dataclasses.field(init=False, default=3)
t('C01 init=False', lambda: DataclassValidator(I)({'a':1,'b':2}))
t('C01 init=False inst', lambda: DataclassValidator(I)(I(1)))
# unhashable in set validator payload
t('C01 set of lists via coercer', lambda: SetValidator(ListValidator(IntValidator()))({(1,)}))
# map with unhashable key payload? key validator returning list: 
# MultipleOf zero excluded. Min with incomparable? type gate prevents.
# Choices with unhashable value: type gate. 
t('C01 date coerce weird', lambda: DateValidator()(b'2020-01-01'))
t('C01 date coerce int', lambda: DateValidator()(5))
import datetime
t('C01 date coerce datetime', lambda: DateValidator()(datetime.datetime(2020,1,1)))
class DSub(datetime.date): pass
t('C01 date subclass', lambda: DateValidator()(DSub(2020,1,1)))
t('C01 decimal bool', lambda: DecimalValidator()(True))
t('C01 decimal huge str', lambda: DecimalValidator()('1'*400))
t('C01 decimal surrogate', lambda: DecimalValidator()('\ud800'))
t('C01 decimal str nan', lambda: DecimalValidator()('nan'))
t('C01 decimal snan pred', lambda: DecimalValidator(Min(Decimal(1)))('sNaN'))
t('C01 decimal nan pred', lambda: DecimalValidator(Min(Decimal(1)))('NaN'))
t('C01 decimal nan multipleof', lambda: DecimalValidator(MultipleOf(Decimal(2)))('NaN'))
t('C01 decimal inf multipleof', lambda: DecimalValidator(MultipleOf(Decimal(2)))('Infinity'))
t('C01 float inf multipleof', lambda: FloatValidator(MultipleOf(2.0))(float('inf')))
t('C01 uuid weird', lambda: UUIDValidator()('\ud800'))
t('C01 uuid int', lambda: UUIDValidator()(5))
t('C01 datetime nul', lambda: DatetimeValidator()('2020-01-01\x00'))
class StrSub(str): pass
t('C01 decimal strsub', lambda: DecimalValidator()(StrSub('1')))
t('C01 uuid strsub', lambda: UUIDValidator()(StrSub('1')))
t('C01 date strsub', lambda: DateValidator()(StrSub('2020-01-01')))
# Maybe
t('C01 maybe', lambda: MaybeValidator(IntValidator())(Just('x')))
# namedtuple 
class NT(NamedTuple):
    a: int
    b: str = 'x'
t('C01 nt', lambda: NamedTupleValidator(NT)(NT(1)))
t('C01 nt tuple', lambda: NamedTupleValidator(NT)((1,'x')))
# typed dict
class TD(TypedDict, total=False):
    a: int
t('C01 td', lambda: TypedDictValidator(TD)({}))
# Record with dict subclass
class DS(dict): pass
t('C04 record dictsub', lambda: RecordValidator(into=lambda a: a, keys=(('a', IntValidator()),))(DS(a=1)))
t('C04 dictany dictsub', lambda: DictValidatorAny({'a': IntValidator()})(DS(a=1)))
# unhashable key in data when fail_on_unknown_keys... keys of dict are always hashable
# record key_ not in data where data dict has weird __eq__ keys... skip
# EqualsValidator with match type eq
t('C02 equals', lambda: EqualsValidator(1)(True))
t('C02 equals', lambda: EqualsValidator(1)(1.0))
# deep nesting recursion
def deep(n):
    x = 1
    for _ in range(n): x=[x]
    return x
def lazyv():
    v = None
    def th(): return v
    v = UnionValidator(IntValidator(), ListValidator(Lazy(th)))
    return v
t('C01 deep recursion 200', lambda: lazyv()(deep(200)).is_valid)
t('C01 deep recursion 5000', lambda: lazyv()(deep(5000)).is_valid)
