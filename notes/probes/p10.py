import asyncio
from typing import *
from koda_validate import *
from koda_validate.signature import validate_signature, InvalidArgsError, InvalidReturnError, RETURN_OVERRIDE_KEY
def t(label, f):
    try:
        r = f(); print(label, '->', repr(r)[:300])
    except BaseException as e:
        print(label, 'RAISED', type(e).__name__, str(e)[:200].replace('\n',' | '))
@validate_signature(overrides={'a': IntValidator(), 'k': IntValidator(), 'args': IntValidator(), 'kw': IntValidator(), RETURN_OVERRIDE_KEY: IntValidator()})
def f(a, *args, k=1, **kw):
    return 'ran'
t('override unannotated pos', lambda: f('x'))
t('override unannotated kwonly', lambda: f(1, k='x'))
t('override unannotated varargs', lambda: f(1, 'x'))
t('override unannotated kwargs', lambda: f(1, z='x'))
t('override unannotated return', lambda: f(1))
@validate_signature(overrides={'a': IntValidator(Min(5))})
def g(a: int): return 'ran'
t('override annotated', lambda: g(1))
# methods: self unannotated
class O:
    @validate_signature
    def m(self, a: int) -> int: return a
    @classmethod
    @validate_signature
    def c2(cls, a: int) -> int: return a
    @staticmethod
    @validate_signature
    def s(a: int) -> int: return a
t('method', lambda: O().m('x'))
t('method ok', lambda: O().m(1))
t('classmethod inner', lambda: O.c2('x'))
t('static', lambda: O.s('x'))
# callable object with async __call__
class CA:
    async def __call__(self, a: int) -> int: return a
t('callable obj async', lambda: asyncio.run(validate_signature(CA())(1)))
# default values not validated
@validate_signature
def d(a: int = 'notint'): return a
t('default not validated', lambda: d())
# return None annotation
@validate_signature
def r() -> None: return 5
t('ret None', lambda: r())
# exceptions pass through
@validate_signature
def ex(a: int) -> int: raise KeyError('boom')
t('exc passthrough', lambda: ex(1))
# kw-only passed, pos-or-kw by keyword
@validate_signature
def pk(a: int, b: str): return (a,b)
t('pos-or-kw by kw invalid', lambda: pk(1, b=2))
t('both kw', lambda: pk(b='x', a='y'))
# ignore_args on kwargs key
@validate_signature(ignore_args={'z'})
def ig(**kw: int): return kw
t('ignore kwargs key', lambda: ig(z='x', y=1))
