import itertools
from koda_validate import *
class Yield:
    def __await__(self):
        yield self
LOG=[]
class APred(PredicateAsync):
    def __init__(self, name, f): self.name=name; self.f=f
    async def validate_async(self, val):
        LOG.append(('enter', self.name, val)); await Yield(); LOG.append(('resume', self.name, val)); return self.f(val)
class UserV(Validator):
    def __init__(self, inner): self.inner=inner
    def __call__(self, v): LOG.append(('userSync',)); return self.inner(v)
    async def validate_async(self, v):
        LOG.append(('userAsync',)); await Yield(); return await self.inner.validate_async(v)
def drive(coro):
    n=0
    try:
        while True:
            coro.send(None); n+=1
    except StopIteration as e:
        return e.value, n
v = ListValidator(UserV(StringValidator(predicates_async=[APred('p', lambda s: len(s)<3), APred('q', lambda s: s!='b')])), predicates_async=[APred('L', lambda l: len(l)<4)])
print(drive(v.validate_async(['a','b','cccc'])))
# interleavings of two tasks sharing v
def interleavings(k1, k2):
    for pos in itertools.combinations(range(k1+k2), k1):
        yield [0 if i in pos else 1 for i in range(k1+k2)]
inputs = [['a','b'], ['cccc']]
solo = [drive(v.validate_async(x)) for x in inputs]
steps = [s[1]+1 for s in solo]  # number of send() calls incl. the final one
cnt=0; bad=0
for sched in interleavings(*steps):
    coros = [v.validate_async(x) for x in inputs]; res=[None,None]
    for t in sched:
        try: coros[t].send(None)
        except StopIteration as e: res[t]=e.value
    cnt+=1
    if res != [s[0] for s in solo]: bad+=1
print('schedules', cnt, 'bad', bad, 'steps', steps)
