import asyncio, dataclasses, traceback, datetime, uuid, json, re
from typing import *
from decimal import Decimal
from koda_validate import *
from koda_validate.maybe import MaybeValidator
from koda_validate.is_type import TypeValidator
from koda_validate.serialization import to_json_schema, to_serializable_errs, to_named_json_schema
from koda_validate.signature import validate_signature, InvalidArgsError, InvalidReturnError, _get_arg_fail_message
from koda import Just, nothing, Maybe
from jsonschema import Draft202012Validator

def t(label, f):
    try:
        r = f()
        print(label, '->', repr(r)[:400])
    except BaseException as e:
        print(label, 'RAISED', type(e).__name__, str(e)[:300])
run = asyncio.run
def js(v, x):
    return Draft202012Validator(to_json_schema(v)).is_valid(x)
# C11
v = StringValidator(not_blank)
for s in ['\na', ' a', 'a\n', '\n', 'a\nb', ' a', '\x1ca', '\x85a']:
    print('C11 notblank', repr(s), v(s).is_valid, js(v, s))
v = UnionValidator(IntValidator(), IntValidator(Min(3)))
print('C11 oneOf', v(5).is_valid, js(v, 5))
v = IntValidator()
print('C11 int 1.0', v(1.0).is_valid, js(v, 1.0), 'bool', v(True).is_valid, js(v, True))
v = FloatValidator()
print('C11 float 1', v(1).is_valid, js(v, 1))
v = StringValidator(MaxLength(1))
print('C11 maxlen astral', v('\U0001F600').is_valid, js(v, '\U0001F600'))
v = ListValidator(IntValidator(), predicates=[unique_items])
print('C11 unique [1, True]', ListValidator(always_valid, predicates=[unique_items])([1, True]).is_valid)
v2 = ListValidator(UnionValidator(IntValidator(), FloatValidator(), BoolValidator()), predicates=[unique_items])
for x in ([1, 1.0], [1, True], [0, False], [[1],[1.0]]):
    t(f'C11 unique {x}', lambda: (v2(x).is_valid, js(v2, x)))
v = StringValidator(StartsWith('a'))
print('C11 startswith', v('ab').is_valid, js(v, 'ab'), v('\nab').is_valid, js(v,'\nab'))
v = StringValidator(EndsWith('a'))
print('C11 endswith', v('ba\n').is_valid, js(v, 'ba\n'))
v = OptionalValidator(IntValidator())
print('C11 nullable', v(None).is_valid, js(v, None))
v = StringValidator(Choices({'a','b'}))
print('C11 enum', v('a').is_valid, js(v,'a'))
v = IntValidator(Choices({1}))
print('C11 enum int 1.0 / True', js(v, 1.0), js(v, True))
v = EqualsValidator(1)
print('C11 equals', v(1).is_valid, js(v,1), v(True).is_valid, js(v, True), v(1.0).is_valid, js(v,1.0))
v = EqualsValidator(1.0)
print('C11 equals float', v(1).is_valid, js(v,1), v(1.0).is_valid, js(v,1.0))
v = FloatValidator(Min(1.5))
print('C11 min', v(2.0).is_valid, js(v, 2.0))
v = MapValidator(key=StringValidator(MaxLength(1)), value=IntValidator())
print('C11 map key pred', v({'ab':1}).is_valid, js(v, {'ab':1}))
v = NTupleValidator.untyped(fields=(IntValidator(), StringValidator()))
print('C11 ntuple', v([1,'a']).is_valid, js(v,[1,'a']), v([1]).is_valid, js(v,[1]))
v = RecordValidator(into=lambda a, b: (a,b), keys=(('a', IntValidator()), ('b', KeyNotRequired(StringValidator()))), fail_on_unknown_keys=True)
print('C11 record', [(v(x).is_valid, js(v,x)) for x in ({'a':1}, {'a':1,'b':'x'}, {'a':1,'c':1}, {'b':'x'}, [], {'a':1,'b':None})])
v = RecordValidator(into=lambda a: a, keys=(('a', OptionalValidator(IntValidator())),))
print('C11 record opt', [(v(x).is_valid, js(v,x)) for x in ({'a':None}, {'a':1}, {})])
# nullable on union w/ oneOf
v = OptionalValidator(UnionValidator(IntValidator(), StringValidator()))
print('C11 opt union None', v(None).is_valid, js(v, None))
# recursive named
T = None
def th(): return T
T = DictValidatorAny({'v': IntValidator(), 'next': KeyNotRequired(Lazy(th))})
print(to_named_json_schema('T', T))
v = StringValidator(RegexPredicate(re.compile('a')))
print('C11 regex match-at-start', v('ba').is_valid, js(v, 'ba'))
v= StringValidator(EmailPredicate())
print('C11 email', v('ba').is_valid, js(v, 'ba'))
v = ListValidator(IntValidator(), predicates=[MinItems(1), MaxItems(2)])
print('C11 items', [(v(x).is_valid, js(v,x)) for x in ([], [1], [1,2,3])])
# ExactLength and then MaxLength override order: ret.update → later keyword overrides earlier
v = StringValidator(MaxLength(5), MaxLength(2))
print('C11 dup keyword', v('abc').is_valid, js(v, 'abc'))
v = StringValidator(StartsWith('a'), EndsWith('b'))
print('C11 two patterns', v('ba b').is_valid, js(v, 'bab'), to_json_schema(v))
