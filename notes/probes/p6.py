import asyncio, dataclasses, traceback, datetime, uuid, json, re
from typing import *
from decimal import Decimal
from koda_validate import *
from koda_validate.maybe import MaybeValidator
from koda_validate.is_type import TypeValidator
from koda_validate.typehints import get_typehint_validator
from koda import Just, nothing, Maybe

def t(label, f):
    try:
        r = f()
        print(label, '->', repr(r)[:400])
    except BaseException as e:
        print(label, 'RAISED', type(e).__name__, str(e)[:300])
run = asyncio.run
# C19
print('C19 dec coerce', DecimalValidator() == DecimalValidator(coerce=None))
class A: pass
class B: pass
print('C19 typevalidator', TypeValidator(A) == TypeValidator(B))
print('C19 equals', EqualsValidator(1) == EqualsValidator(True), EqualsValidator(1) == EqualsValidator(1.0))
class T1(TypedDict):
    a: int
class T2(TypedDict, total=False):
    a: int
print('C19 td', TypedDictValidator(T1) == TypedDictValidator(T2))
print('C19 int preds', IntValidator(Min(1)) == IntValidator(Min(True)), IntValidator(Min(1)) == IntValidator(Min(1.0)))
print('C19 choices', StringValidator(Choices({'a'})) == StringValidator(Choices({'a'})))
print('C19 record', RecordValidator(into=dict, keys=(('a', IntValidator()),)) == RecordValidator(into=dict, keys=(('a', IntValidator()),)))
print('C19 lazy', Lazy(lambda: IntValidator()) == Lazy(lambda: IntValidator()))
f = lambda: IntValidator()
print('C19 lazy same thunk', Lazy(f) == Lazy(f))
print('C19 none', NoneValidator() == NoneValidator(), OptionalValidator(IntValidator()) == OptionalValidator(IntValidator()))
print('C19 ntuple', NTupleValidator.untyped(fields=(IntValidator(),)) == NTupleValidator.untyped(fields=(IntValidator(),)))
print('C19 map', MapValidator(key=StringValidator(), value=IntValidator()) == MapValidator(key=StringValidator(), value=IntValidator()))
print('C19 regex', StringValidator(RegexPredicate(re.compile('a'))) == StringValidator(RegexPredicate(re.compile('a'))))
print('C19 keynotreq vs req', DictValidatorAny({'a': KeyNotRequired(IntValidator())}) == DictValidatorAny({'a': IntValidator()}))
print('C19 dictany order', DictValidatorAny({'a': IntValidator(), 'b': IntValidator()}) == DictValidatorAny({'b': IntValidator(), 'a': IntValidator()}))
print('C19 record 1 vs True key', RecordValidator(into=dict, keys=((1, IntValidator()),)) == RecordValidator(into=dict, keys=((True, IntValidator()),)))
print('C19 strvalidator vs strvalidator preds tuple/list', StringValidator() == StringValidator(preprocessors=[]), StringValidator() == StringValidator(predicates_async=[]))
print('C19 list preds None vs []', ListValidator(IntValidator()) == ListValidator(IntValidator(), predicates=[]))
print('C19 maybe', MaybeValidator(IntValidator()) == MaybeValidator(IntValidator()))
print('C19 always', always_valid == AlwaysValid())
@dataclasses.dataclass
class D1:
    a: int
@dataclasses.dataclass
class D2:
    a: int = 1
print('C19 dc', DataclassValidator(D1) == DataclassValidator(D1), DataclassValidator(D1) == DataclassValidator(D2))
print('C19 dc overrides', DataclassValidator(D1, overrides={'a': IntValidator(Min(1))}) == DataclassValidator(D1))
class N1(NamedTuple):
    a: int
print('C19 nt', NamedTupleValidator(N1) == NamedTupleValidator(N1))
print('C19 optional none_validator differing', OptionalValidator(IntValidator(), none_validator=NoneValidator(coerce=Coercer(lambda v: Just(None), {str}))) == OptionalValidator(IntValidator()))
print('C19 uniform', UniformTupleValidator(IntValidator()) == UniformTupleValidator(IntValidator(), coerce=None))
print('C19 set', SetValidator(IntValidator()) == SetValidator(IntValidator()))
print('C19 equals preprocessors', EqualsValidator('a', preprocessors=[strip]) == EqualsValidator('a'))
print('C19 repr', repr(EqualsValidator('a')), repr(Lazy(f))[:50])
print('C19 isdict', IsDictValidator() == is_dict_validator)
print('C19 coercer eq', Coercer(f, {str}) == Coercer(f, {str}))
print('C19 intvalidator vs subclass', IntValidator() == FloatValidator())
# C17
@dataclasses.dataclass(slots=True)
class S:
    a: int
v = DataclassValidator(S)
r = v({'a':1})
t('C17 slots', lambda: v(r.val))
v = DictValidatorAny({'a': KeyNotRequired(IntValidator())})
print('C17 dictany', v(v({'a':1}).val), v(v({}).val))
v = RecordValidator(into=lambda a: {'a': a}, keys=(('a', KeyNotRequired(IntValidator())),))
print('C17 record maybe', v({'a':1}))
t('C17 record refeed', lambda: v(v({'a':1}).val))
v = MapValidator(key=StringValidator(preprocessors=[strip]), value=IntValidator())
print('C17 map strip merging', v({' a': 1, 'a': 2}))
v = SetValidator(StringValidator(preprocessors=[strip]))
print('C17 set', v({' a', 'a'}))
v = UnionValidator(DecimalValidator(), IntValidator())
print('C17 union', v(1), v(v(1).val))
v = OptionalValidator(DecimalValidator()); print('C17 opt', v('1'), v(v('1').val))
v = MaybeValidator(IntValidator()); print('C17 maybe', v(v(Just(1)).val), v(v(nothing).val))
@dataclasses.dataclass
class DD:
    a: int = 'notint'
v = DataclassValidator(DD); print('C17 bad default', v({}), v(v({}).val).is_valid)
