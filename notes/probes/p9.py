import asyncio, dataclasses, datetime, json, re
from typing import *
from decimal import Decimal
from koda_validate import *
from koda_validate.signature import validate_signature, InvalidArgsError, InvalidReturnError
def t(label, f):
    try:
        r = f(); print(label, '->', repr(r)[:300])
    except BaseException as e:
        print(label, 'RAISED', type(e).__name__, str(e)[:200].replace('\n',' | '))
@dataclasses.dataclass
class D:
    x: Decimal
class TD(TypedDict):
    x: Decimal
class NT(NamedTuple):
    x: Decimal
@validate_signature
def f(d: D): return d
@validate_signature
def g(d: TD): return d
@validate_signature
def h(d: NT): return d
@validate_signature
def k(d: List[Decimal]): return d
@validate_signature
def m(d: Tuple[Decimal, ...]): return d
@validate_signature
def n(d: Optional[Tuple[int, str]]): return d
t('C09 dc field lookalike', lambda: f(D('1')))
t('C09 td field lookalike', lambda: g({'x': '1'}))
t('C09 nt field lookalike', lambda: h(NT('1')))
t('C09 list lookalike', lambda: k(['1']))
t('C09 tuple lookalike', lambda: m(('1',)))
t('C09 tuple list', lambda: m([Decimal(1)]))
t('C09 opt tuple list', lambda: n([1, 'a']))
t('C09 dc dict', lambda: f({'x': Decimal(1)}))
